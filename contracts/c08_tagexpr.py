# -*- coding: utf-8 -*-
"""C08 / C07 -- tag expressions: behave's own code under contract.

What is within reach of the VC generator (behave's own functions):

* C08: ``v1.TagExpression.check`` (the CNF meaning of a v1 expression object), the
  auto-detection helpers and decision table of ``builder._select_tag_expression_parser4auto``,
  the protocol dispatch ``TagExpressionProtocol.parse`` / ``make_tag_expression``;
* C07: ``Matcher.evaluate`` (wildcard operand), ``TagExpressionParser.make_operand``
  (operand factory), ``Expression.check`` == ``evaluate``.

Out of reach (bounded stand-ins only, harness/b_c07.py, b_c08.py): the third-party
``cucumber_tag_expressions`` parser, ``fnmatch``, and everything that is string
surgery (normalisation of '@', '~', ':limit', printing).  String primitives appear here
as uninterpreted functions (A-str): str.startswith, slicing ``s[1:]``, ``in``.
"""
from pyvc.contracts import contract, oracle, Loop, Raises, macro, global_const, shape, trusted_note
from contracts import prop
from pyvc.contracts import external_exception

external_exception("TagExpressionError", "Exception")     # cucumber_tag_expressions.parser

B = "behave.tag_expression.builder:"
V1 = "behave.tag_expression.v1:"
M2 = "behave.tag_expression.model:"
P2 = "behave.tag_expression.parser:"

# ---------------------------------------------------------------------------------------
# auto-detection helpers (C08)
contract(B + "_any_word_is_keyword", props=["C08", "C07"], params={"words": "seq:str", "keywords": "seq:str"},
         result="bool", pure=True,
         loops=[Loop(invariant={"no-earlier-keyword-is-a-word":
                                "forall(lambda k, w: implies(0 <= k < _i and 0 <= w < len(words), keywords[k] != words[w]))"}),
                Loop(invariant={"keyword-is-none-of-the-earlier-words":
                                "forall(lambda w: implies(0 <= w < _i, keyword != words[w]))"})],
         ensures={"some-word-equals-some-keyword":
                  "result == exists(lambda k, w: 0 <= k < len(keywords) and 0 <= w < len(words) and keywords[k] == words[w])"})
contract(B + "_any_word_contains_keyword", props=["C08", "C07"], params={"words": "seq:str", "keywords": "seq:str"},
         result="bool", pure=True,
         loops=[Loop(invariant={"no-earlier-keyword-occurs-in-a-word":
                                "forall(lambda k, w: implies(0 <= k < _i and 0 <= w < len(words), not str_in(keywords[k], words[w])))"}),
                Loop(invariant={"keyword-occurs-in-none-of-the-earlier-words":
                                "forall(lambda w: implies(0 <= w < _i, not str_in(keyword, words[w])))"})],
         ensures={"some-word-contains-some-keyword":
                  "result == exists(lambda k, w: 0 <= k < len(keywords) and 0 <= w < len(words) and str_in(keywords[k], words[w]))"})
contract(B + "_any_word_starts_with", props=["C08", "C07"], params={"words": "seq:str", "prefixes": "seq:str"},
         result="bool", pure=True,
         loops=[Loop(invariant={"no-word-starts-with-an-earlier-prefix":
                                "forall(lambda k, w: implies(0 <= k < _i and 0 <= w < len(words), not str_startswith(words[w], prefixes[k])))"})],
         ensures={"some-word-starts-with-some-prefix":
                  "result == exists(lambda k, w: 0 <= k < len(prefixes) and 0 <= w < len(words) and str_startswith(words[w], prefixes[k]))"})
oracle("has_magic", ["str"], "bool")       # glob.has_magic(text): text contains one of * ? [
contract("lib:glob.has_magic", trusted=True, pos_params=["text"], pure=True, result="bool",
         ensures={"value": "result == has_magic(text)"}, doc="glob.has_magic (A-lib)")
contract(M2 + "Matcher.contains_wildcards", props=["C07", "C08"], params={"text": "str"}, result="bool", pure=True,
         callsites={"glob.has_magic": "lib:glob.has_magic"},
         ensures={"wildcards-iff-glob-magic": "result == has_magic(text)"})
contract(B + "_any_word_contains_wildcards", props=["C08", "C07"], params={"words": "seq:str"}, result="bool", pure=True,
         callsites={"_MatcherV2.contains_wildcards": M2 + "Matcher.contains_wildcards"},
         ensures={"some-word-has-a-wildcard": "result == exists(lambda w: 0 <= w < len(words) and has_magic(words[w]))"})

# ---------------------------------------------------------------------------------------
# the auto-detection decision table (C08)
oracle("str_nwords", ["str"], "int")          # len(s.split())
oracle("str_word", ["str", "int"], "str")     # s.split()[k]
oracle("str_replace", ["str", "str", "str"], "str")
global_const("_parse_tag_expression_v1", ("sentinel", 21))
global_const("_parse_tag_expression_v2", ("sentinel", 22))
# the words auto-detection looks at: the text with parentheses spaced out, split at whitespace
macro("ad_text", ["t"], "str_replace(str_replace(t, '(', ' ( '), ')', ' ) ')")
macro("ad_n", ["t"], "str_nwords(ad_text(t))")
macro("ad_w", ["t", "k"], "str_word(ad_text(t), k)")
macro("ad_v1_prefix", ["t"], "exists(lambda w: 0 <= w < ad_n(t) and (str_startswith(ad_w(t, w), '~') or str_startswith(ad_w(t, w), '-')))")
macro("ad_v1_comma", ["t"], "exists(lambda w: 0 <= w < ad_n(t) and str_in(',', ad_w(t, w)))")
macro("ad_v2", ["t"], "exists(lambda w: 0 <= w < ad_n(t) and (ad_w(t, w) == 'and' or ad_w(t, w) == 'or' or ad_w(t, w) == 'not' "
                      "or ad_w(t, w) == '(' or ad_w(t, w) == ')' or has_magic(ad_w(t, w))))")
contract(B + "_select_tag_expression_parser4auto", props=["C08", "C07"], params={"text_or_seq": "str"},
         raises=[Raises("TagExpressionError", when="ad_v1_prefix(text_or_seq) and ad_v2(text_or_seq)",
                        label="mixed-v1-negation-and-v2-operators-rejected")],
         ensures={
             "v2-operators-or-wildcards-select-v2":
                 "implies(ad_v2(text_or_seq), result is _parse_tag_expression_v2)",
             "v1-negation-or-comma-or-several-words-select-v1":
                 "implies(not ad_v2(text_or_seq) and (ad_v1_prefix(text_or_seq) or ad_v1_comma(text_or_seq) or ad_n(text_or_seq) > 1), "
                 "result is _parse_tag_expression_v1)",
             "single-plain-tag-selects-v2":
                 "implies(not ad_v2(text_or_seq) and not ad_v1_prefix(text_or_seq) and not ad_v1_comma(text_or_seq) and ad_n(text_or_seq) <= 1, "
                 "result is _parse_tag_expression_v2)",
         })

# ---------------------------------------------------------------------------------------
# v1 expression objects: conjunction of disjunctions of possibly negated tags (C08)
shape("TagExpression", ands="seq:seq:str", limits="dict:int")
# a stored literal x is true for the element's tags iff  x = "-t" and t is absent, or x = "t" and t is present
macro("v1_has", ["tags", "t"], "exists(lambda k: 0 <= k < len(tags) and tags[k] == t)")
macro("v1_lit", ["x", "tags"], "ite(str_startswith(x, '-'), not v1_has(tags, x[1:]), v1_has(tags, x))")
contract(V1 + "TagExpression.check", props=["C08", "C09"], params={"self": "ref:TagExpression", "tags": "seq:str"},
         self_classes=["TagExpression"], result="bool", pure=True,
         ensures={
             "and-of-ors-of-possibly-negated-tags":
                 "result == forall(lambda a: implies(0 <= a < len(self.ands), "
                 "exists(lambda o: 0 <= o < len(self.ands[a]) and v1_lit(self.ands[a][o], tags))))",
             "empty-expression-selects-everything": "implies(len(self.ands) == 0, result == True)",
         })
contract(V1 + "TagExpression.__len__", props=["C08"], params={"self": "ref:TagExpression"}, result="int", pure=True,
         ensures={"number-of-and-groups": "result == len(self.ands)"})

prop("C08", level="other", bounded=[],
     explanation="proved for behave's own code: v1 TagExpression.check is the AND of ORs of possibly negated stored tags for every "
                 "expression object and tag list; the auto-detection decision table (v2 operator/wildcard words select v2, "
                 "negation prefix/comma/several words select v1, both together raise TagExpressionError) and its four word "
                 "scanners; normalize_tag applies exactly the documented spelling rules ('@' optional, '-@'/'~@'/'~' negate). "
                 "':limit' handling, the list form and the protocol dispatch are bounded "
                 "(complete truth tables over enumerated CNF formulas)",
     technique="contract-based deductive verification (own VC generator over the real ASTs, z3/cvc5) of check() and the "
               "auto-detect decision; bounded run-time contract stand-in for string normalisation",
     notes=["strings are uninterpreted (A-str): startswith, slicing, `in`, split are functions of their arguments",
            "_select_tag_expression_parser4auto is proved for a text argument; the sequence form (joined with ' ') is bounded"])

# ---------------------------------------------------------------------------------------
# C07: behave's extensions of the v2 model -- wildcard operand and operand factory
oracle("fnmatchcase", ["val", "val"], "bool")     # fnmatch.fnmatchcase(tag, pattern): case-sensitive glob match (A-lib)
contract("lib:fnmatchcase", trusted=True, pos_params=["name", "pat"], pure=True, result="bool",
         ensures={"value": "result == fnmatchcase(name, pat)"}, doc="fnmatch.fnmatchcase (A-lib)")
global_const("fnmatchcase", ("contract", "lib:fnmatchcase"))
TM = "Matcher@behave.tag_expression.model"
shape(TM, pattern="str")
shape("Literal", name="str")
contract(M2 + "Matcher.evaluate", props=["C07"], params={"self": "ref:" + TM, "values": "seq:str"},
         self_classes=[TM], result="bool", pure=True,
         loops=[Loop(invariant={"no-earlier-tag-matches": "forall(lambda k: implies(0 <= k < _i, not fnmatchcase(_at(k), self.pattern)))"})],
         ensures={"true-iff-some-tag-matches-the-pattern-case-sensitively":
                  "result == exists(lambda k: 0 <= k < len(values) and fnmatchcase(values[k], self.pattern))"})
contract(M2 + "Matcher.name", props=["C07"], params={"self": "ref:" + TM}, result="str", pure=True,
         ensures={"name-is-the-pattern": "result == self.pattern"})
contract(M2 + "Matcher.__str__", props=["C07"], params={"self": "ref:" + TM}, result="str", pure=True,
         ensures={"prints-as-its-pattern": "result == self.pattern"})
contract(M2 + "Never.evaluate", props=["C07"], params={"self": "ref:Never"}, result="bool", pure=True,
         ensures={"never": "result == False"})
from pyvc.contracts import virtual_class
virtual_class("Expression", bases=[], members=[TM, "Never", "Literal"])
virtual_class("Literal", bases=["Expression"], members=[])
contract("new:Literal", trusted=True, pos_params=["name"], fresh_result="Literal",
         ensures={"holds-its-name": "result.name == name"},
         doc="cucumber_tag_expressions.model.Literal(name): true iff name is among the tags (A-lib)")
global_const("Literal", ("contract", "new:Literal"))
contract(P2 + "TagExpressionParser.make_operand", props=["C07"], params={"text": "str"}, result="any",
         ensures={"wildcard-text-becomes-a-matcher":
                  "implies(has_magic(text), exact_type(result, '%s') and as_ref(result, '%s').pattern == text)" % (TM, TM),
                  "plain-text-becomes-a-literal":
                  "implies(not has_magic(text), exact_type(result, 'Literal') and as_ref(result, 'Literal').name == text)",
                  "operand-is-new": "is_fresh(result)"})

prop("C07", level="other", bounded=[],
     explanation="proved for behave's own extension code: a wildcard operand is true iff some tag matches its pattern "
                 "(fnmatchcase as an uninterpreted predicate), the operand factory builds a Matcher exactly for texts with "
                 "glob wildcards and a Literal of the same text otherwise, a Matcher prints as its pattern; before the v2 parser "
                 "sees a text every '@' is removed; setup_tag_expression selects the configured dialect before any expression "
                 "of the configuration is parsed and substitutes {config.tags} by the printed configured expression. The Boolean "
                 "structure (and/or/not, parentheses, precedence) is parsed and evaluated by the third-party package "
                 "cucumber_tag_expressions and is covered by the bounded stand-in only (complete truth tables)",
     technique="contract-based deductive verification (own VC generator over the real ASTs, z3/cvc5) of behave's operand "
               "extensions; bounded run-time contract stand-in (complete truth tables, print/re-parse) for the third-party parser",
     notes=["cucumber_tag_expressions (parser, And/Or/Not/Literal.evaluate) and fnmatch are outside the verified text (A-lib)",
            "text normalisation in _parse_tag_expression_v2 and Not.__str__/to_string are string surgery: bounded only"])

# ---------------------------------------------------------------------------------------
# C08: spelling of a v1 tag (string surgery as uninterpreted functions: which rule applies to which spelling)
contract(V1 + "TagExpression.normalize_tag", props=["C08", "C09"], params={"tag": "str"}, result="str", pure=True,
         ensures={
             "leading-at-sign-is-optional": "implies(tag.strip().startswith('@'), result == tag.strip()[1:])",
             "minus-at-and-tilde-at-both-negate":
                 "implies(not tag.strip().startswith('@') and (tag.strip().startswith('-@') or tag.strip().startswith('~@')), "
                 "result == '-' + tag.strip()[2:])",
             "tilde-negates-like-minus":
                 "implies(not tag.strip().startswith('@') and not tag.strip().startswith('-@') and not tag.strip().startswith('~@') "
                 "and tag.strip().startswith('~'), result == '-' + tag.strip()[1:])",
             "anything-else-is-only-stripped":
                 "implies(not tag.strip().startswith('@') and not tag.strip().startswith('-@') and not tag.strip().startswith('~@') "
                 "and not tag.strip().startswith('~'), result == tag.strip())",
         })

# C07: text normalisation before the v2 parser: every '@' is removed, whatever precedes it
oracle("v2_parsed", ["val"], "val")
_ghost0 = __import__("pyvc.contracts", fromlist=["ghost"]).ghost
_ghost0("v2_text", "val")
contract("abs:TagExpressionParser.parse", trusted=True, pos_params=["text"], result="any", modifies=["G_v2_text"],
         ensures={"value": "result == v2_parsed(text) and G_v2_text == text"},
         doc="cucumber_tag_expressions based parser (A-lib; bounded: truth tables); ghost: the text it was given")
contract(B + "_parse_tag_expression_v2", props=["C07", "C08"], params={"text_or_seq": "any"}, result="any",
         callsites={"TagExpressionParser.parse": "abs:TagExpressionParser.parse"},
         modifies=["G_v2_text"],
         raises=[Raises("TypeError", when="not has_kind(text_or_seq, 'str') and not typeof_is(text_or_seq, 'list') "
                                          "and not typeof_is(text_or_seq, 'tuple')", label="neither-text-nor-sequence")],
         assume={"A-str: removing every '@' leaves none, and collapsing double blanks adds none":
                 "forall_val(lambda s: not str_in('@', as_str(s).replace('@', ''))) and "
                 "forall_val(lambda s: str_in('@', as_str(s).replace('  ', ' ')) == str_in('@', as_str(s)))"},
         ensures={"every-at-sign-is-removed-then-double-blanks-collapsed-then-parsed":
                  "implies(has_kind(text_or_seq, 'str'), result == v2_parsed((as_str(text_or_seq).replace('@', '') "
                  "if str_in('@', as_str(text_or_seq)) else as_str(text_or_seq)).replace('  ', ' ')))",
                  "the-parser-never-sees-an-at-sign-in-text-or-list-of-terms-form":
                      "result == v2_parsed(G_v2_text) and not str_in('@', G_v2_text)"})

# C07: the configured dialect is in force before *any* expression of this configuration is parsed
from pyvc.contracts import ghost as _ghost
_ghost("te_protocol", "val")
contract("abs:TagExpressionProtocol.use", trusted=True, pos_params=["member"], modifies=["G_te_protocol"],
         ensures={"selected": "G_te_protocol == member"}, doc="TagExpressionProtocol.use(member): sets the process-wide dialect")
contract("abs:make_tag_expression", trusted=True, pos_params=["text_or_seq"], pure=True, result="any",
         ensures={"value": "result == te_made(text_or_seq, G_te_protocol)"},
         doc="make_tag_expression(text): parses with the process-wide dialect in force at the time of the call")
oracle("te_made", ["val", "val"], "val")
oracle("te_text", ["val"], "val:str")          # "{0}".format(expression)
shape("Configuration", config_tags="any", default_tags="any", tags="any", tag_expression_protocol="any", tag_expression="any")
contract("lib:str.format1", trusted=True, pos_params=["self", "x"], pure=True, result="str", ensures={"value": "result == te_text(x)"})
contract(C_ := "behave.configuration:Configuration.setup_tag_expression", props=["C07"],
         params={"self": "ref:Configuration", "tags": "opt:str"}, self_classes=["Configuration"],
         callsites={"TagExpressionProtocol.use": "abs:TagExpressionProtocol.use", "make_tag_expression": "abs:make_tag_expression",
                    "'{0}'.format": "lib:str.format1"},
         requires={"tags-are-text": "(is_none(self.tags) or has_kind(self.tags, 'str')) and "
                                    "(is_none(self.config_tags) or has_kind(self.config_tags, 'str')) and "
                                    "(is_none(self.default_tags) or has_kind(self.default_tags, 'str'))"},
         modifies=["G_te_protocol", "self.tag_expression", "self.tags", "lists"],
         ensures={
             "the-configured-dialect-is-in-force-afterwards": "G_te_protocol == self.tag_expression_protocol",
             "the-expression-is-parsed-with-the-configured-dialect":
                 "self.tag_expression == te_made(self.tags, self.tag_expression_protocol)",
             "the-placeholder-is-replaced-by-the-configured-tags-parsed-with-the-configured-dialect-and-printed":
                 "implies(str_in('{config.tags}', old(sel_tags(self, tags))), self.tags == str_replace(old(sel_tags(self, tags)), '{config.tags}', "
                 "te_text(te_made(old(cfg_tags(self)), self.tag_expression_protocol))))",
         })
from pyvc.contracts import macro as _macro
_macro("cfg_tags", ["c"], "(c.config_tags if truthy(c.config_tags) else (c.default_tags if truthy(c.default_tags) else ''))")
_macro("sel_tags", ["c", "t"], "(t if truthy(t) else (c.tags if truthy(c.tags) else cfg_tags(c)))")

# C08: limits never change the stored literal: "-foo:3" stays the negated literal "-foo"
oracle("colon_head", ["val"], "val:str")        # tag.split(':')[0]
contract("abs:str.split_colon", trusted=True, pos_params=["self", "sep"], fresh_result="list:str",
         ensures={"parts": "len(result) >= 1 and as_list(result, 'str')[0] == colon_head(self) and "
                           "forall(lambda k: implies(0 <= k < len(result), has_kind(as_list(result, 'str')[k], 'str')))"},
         doc="tag.split(':'): at least one part, the first one is the text before the first colon (A-lib)")
contract("lib:int", trusted=True, pos_params=["x"], pure=True, result="int", raises=[Raises("ValueError", when=None)],
         doc="int(text) (A-lib)")
shape("TagExpression", ands="seq:seq:str", limits="dict:int")
contract(V1 + "TagExpression.store_and_extract_limits", props=["C08"], params={"self": "ref:TagExpression", "tags": "seq:str"},
         self_classes=["TagExpression"],
         callsites={"tag.split": "abs:str.split_colon", "int": "lib:int"},
         requires={"the-or-list-is-not-the-expression's-own-list": "tags is not self.ands"},
         allow_raises=["Exception", "ValueError"],
         modifies=["list(self.ands)", "dict(self.limits)", "lists", "dicts"],
         loops=[Loop(invariant={
             "each-tag-so-far-is-stored-as-written-up-to-its-first-colon-negation-sign-included":
                 "len(tags_with_negation) == _i and forall(lambda k: implies(0 <= k < _i, tags_with_negation[k] == colon_head(_at(k))))",
             "same": "_seq is tags", "fresh": "tags_with_negation is not tags and tags_with_negation is not self.ands"},
             modifies=["list(tags_with_negation)", "dict(self.limits)"])],
         ensures={
             "one-and-group-is-added-for-a-non-empty-or-list":
                 "len(self.ands) == old(len(self.ands)) + (1 if len(tags) > 0 else 0)",
             "the-group-holds-every-tag-up-to-its-first-colon-with-its-negation-sign":
                 "implies(len(tags) > 0, len(self.ands[len(self.ands) - 1]) == len(tags) and forall(lambda k: implies(0 <= k < len(tags), "
                 "self.ands[len(self.ands) - 1][k] == colon_head(tags[k]))))",
             "earlier-groups-kept": "forall(lambda k: implies(0 <= k < old(len(self.ands)), self.ands[k] is old(self.ands[k])))",
         })

# -- v1: every alternative of a comma-separated OR group is kept, normalized, in order (generator function) ------------
oracle("or_parts", ["val"], "val")       # expr.strip().split(',') as a list of texts
contract("abs:or_parts", trusted=True, pos_params=["self", "sep"], pure=True, result="seq:str",
         ensures={"value": "result is or_parts(self)"}, doc="expr.strip().split(','): the alternatives of one OR group (A-str)")
contract("abs:TagExpression.normalize_tag.view", trusted=True, pos_params=["tag"], pure=True, result="str",
         ensures={"value": "result == norm_tag(tag)"}, doc="call-site view of normalize_tag (proved above against the spelling rules)")
oracle("norm_tag", ["val"], "val:str")
contract(V1 + "TagExpression.normalized_tags_from_or", props=["C08", "C09"], params={"expr": "str"}, result="seq:str",
         callsites={"expr.strip().split": "abs:or_parts", "cls.normalize_tag": "abs:TagExpression.normalize_tag.view"},
         loops=[Loop(modifies=["yields"], invariant={
             "one-normalized-tag-per-alternative-so-far-in-order":
                 "len(yielded()) == _i and forall(lambda k: implies(0 <= k < _i, yielded()[k] == norm_tag(_at(k))))",
             "same": "_seq is or_parts(expr.strip())"})],
         ensures={"one-normalized-tag-per-alternative-in-order-none-dropped":
                  "len(result) == len(as_list(or_parts(expr.strip()), 'str')) and forall(lambda k: implies(0 <= k < len(result), "
                  "result[k] == norm_tag(as_list(or_parts(expr.strip()), 'str')[k])))"},
         doc="'a,-a' (a or not a) keeps both alternatives: the group is always true; dropping one changes the formula")
