# -*- coding: utf-8 -*-
"""C04 / C05 -- the Gherkin parser: the parts of behave/parser.py that are small enough for contracts.

The line-oriented state machine, keyword tables (80 languages) and cell/doc-string text handling are string code and
stay with the bounded stand-ins.  Under contract here:
  * parse_tags: only ParserError escapes (with a usable line number), the tags are the '@' words up to a comment;
  * the doc-string collector: a doc-string ends only at a line starting with the quotes that opened it;
  * action_scenario: the first step of every scenario / outline is parsed with no step-type predecessor;
  * the failure-oracle helpers never raise themselves (a rejected line must surface as ParserError, not AttributeError).
"""
from pyvc.contracts import contract, oracle, Loop, Raises, shape, macro, global_const
from contracts import prop

PR = "behave.parser:"
shape("Parser", line="int", filename="any", last_step_type="opt:str", statement="opt:ref:BasicStatement", lines="seq:str", state="any",
      multiline_terminator="opt:str", multiline_start="any", multiline_leading="any", tags="seq:any", scenario_container="any",
      feature="any", rule="any", variant="any", keywords="any", table="any", examples="any", language="any")
shape("ParserError", line="any", filename="any", line_text="any")
contract("new:ParserError", trusted=True, pos_params=["message", "line", "filename", "line_text", "reason"],
         defaults={"filename": None, "line_text": None, "reason": None}, kwarg="kw", fresh_result="ParserError",
         ensures={"carries-the-line": "result.line == line and result.filename == filename"},
         doc="ParserError(message, line, filename): stores the line number (message formatting: bounded)")
contract("new:Tag", trusted=True, pos_params=["name", "line"], fresh_result="Tag", ensures={"name": "tag_text(result) == name"},
         doc="model.Tag(name, line): a str subclass carrying its line")
oracle("tag_text", ["ref"], "val")
WORDS = "line.split()"
contract(PR + "Parser.parse_tags", props=["C05", "C04"], params={"self": "ref:Parser", "line": "str"}, self_classes=["Parser"],
         callsites={"model.Tag": "new:Tag", "ParserError": "new:ParserError"},
         result="seq:any",
         raises=[Raises("ParserError", when=None, label="malformed-tag-line",
                        ensures={"line-number-is-usable": "exc.line == (self.line if self.line != 0 else 1)"})],
         loops=[Loop(invariant={
             "every-word-so-far-was-a-tag": "forall(lambda k: implies(0 <= k < _i, str_startswith(_at(k), '@'))) and len(tags) == _i",
             "tags-so-far-are-the-words-without-the-at-sign": "forall(lambda k: implies(0 <= k < _i, tag_text(tags[k]) == _at(k)[1:]))"})],
         ensures={"one-tag-per-at-word-in-order-up-to-a-comment":
                  "forall(lambda k: implies(0 <= k < len(result), tag_text(result[k]) == str_word(line, k)[1:] and "
                  "str_startswith(str_word(line, k), '@'))) and len(result) <= str_nwords(line)",
                  "every-word-is-consumed-unless-a-comment-starts":
                  "len(result) == str_nwords(line) or str_startswith(str_word(line, len(result)), '#')"})

# -- doc-strings end only at the quotes that opened them ---------------------------------------------------------------
contract("abs:Parser._normalize_step_name", trusted=True, params={"self": "ref:Parser"}, pos_params=["self", "step"],
         modifies=["*.name"], doc="strips a trailing ':' of the step name (string)")
contract("new:Text", trusted=True, pos_params=["value", "content_type", "line"], defaults={"content_type": "text/plain", "line": 0},
         fresh_result="Text", doc="model.Text (a str subclass with content type and line)")
global_const("model", ("module", "model"))
shape("Step", text="any")
STMT_STEPS = "as_ref(self.statement, 'Scenario').steps"
contract(PR + "Parser.action_multiline_text", props=["C04"], params={"self": "ref:Parser", "line": "str"},
         self_classes=["Parser"], result="bool",
         fields={"Parser.statement": "opt:ref:Scenario"},
         requires={"inside-a-doc-string": "not is_none(self.multiline_terminator)",
                   "a-step-precedes-the-doc-string": "not is_none(self.statement) and len(%s) >= 1" % STMT_STEPS,
                   "the-step-belongs-to-a-scenario-or-outline (a background's doc-string takes the same statements; not covered here)":
                       "typeof_is(self.statement, 'Scenario')",
                   "leading-width-is-a-number": "has_kind(self.multiline_leading, 'int')"},
         callsites={"model.Text": "new:Text", "ParserError": "new:ParserError", "self._normalize_step_name": "abs:Parser._normalize_step_name"},
         raises=[Raises("ParserError", when=None, label="bad-indent",
                        ensures={"only-for-a-content-line": "not str_startswith(line.strip(), old(self.multiline_terminator))",
                                 "carries-the-current-line": "exc.line == self.line"})],
         modifies=["self.lines", "list(self.lines)", "self.multiline_terminator", "self.state", "*.text", "*.name"],
         ensures={
             "ends-exactly-at-a-line-starting-with-the-opening-quotes":
                 "(self.state == State.STEPS and is_none(self.multiline_terminator)) == "
                 "str_startswith(line.strip(), old(self.multiline_terminator))",
             "any-other-line-is-collected-as-text":
                 "implies(not str_startswith(line.strip(), old(self.multiline_terminator)), "
                 "len(self.lines) == old(len(self.lines)) + 1 and self.multiline_terminator == old(self.multiline_terminator) "
                 "and self.state == old(self.state))",
             "accepted": "result == True"})

# -- And/But never inherit a step type across scenarios ------------------------------------------------------------------
oracle("parsed_step", ["ref", "val", "val"], "val")      # parse_step(line) as a function of (parser, line, predecessor step type)
contract("abs:Parser.parse_step", trusted=True, params={"self": "ref:Parser"}, pos_params=["self", "line"],
         modifies=["self.last_step_type"],
         raises=[Raises("ParserError", when=None, ensures={"line": "exc.line == self.line"})],
         ensures={"a-function-of-the-line-and-the-predecessor-step-type": "result == parsed_step(self, line, old(self.last_step_type))",
                  "step-or-nothing": "is_none(result) or typeof_is(result, 'Step')"},
         doc="parse_step(line): keyword table lookup (longest alias) and And/But/* type inheritance from self.last_step_type "
             "(string code: bounded stand-in b_c04/b_c05)")
contract("abs:Parser.subaction_detect_taggable_statement", trusted=True, params={"self": "ref:Parser"}, pos_params=["self", "line"],
         modifies=["self.statement", "self.state", "self.tags", "list(self.tags)", "self.examples", "self.last_step_type", "lists"],
         raises=[Raises("ParserError", when=None, ensures={"line": "exc.line == self.line"})], result="bool",
         ensures={"nothing-detected-nothing-changed": "implies(not result, self.statement is old(self.statement) and self.state == old(self.state))"},
         doc="detects tags / the next Scenario, Scenario Outline, Examples (keyword tables: bounded)")
shape("Scenario", description="seq:any")
contract(PR + "Parser.action_scenario", props=["C04", "C05"], params={"self": "ref:Parser", "line": "str"},
         self_classes=["Parser"], result="bool",
         fields={"Parser.statement": "opt:ref:Scenario"},
         requires={"the-current-statement-is-a-scenario-or-outline (state SCENARIO)":
                   "is_none(self.statement) or typeof_is(self.statement, 'Scenario')"},
         raises=[Raises("ParserError", when=None, label="from-the-sub-parsers", ensures={"carries-the-current-line": "exc.line == self.line"})],
         modifies=["self.last_step_type", "self.statement", "self.state", "self.tags", "list(self.tags)", "self.examples", "lists",
                   "*.description"],
         ensures={"the-first-step-of-a-scenario-is-parsed-without-a-predecessor-step-type":
                  "implies(not is_none(old(self.statement)) and not is_none(parsed_step(self, line.strip(), None)), "
                  "self.state == State.STEPS and "
                  "as_ref(old(self.statement), 'Scenario').steps[len(as_ref(old(self.statement), 'Scenario').steps) - 1] "
                  "is parsed_step(self, line.strip(), None))"})

# -- the failure oracle never fails itself ---------------------------------------------------------------------------------
shape("Parser", scenario_container="opt:ref:ScenarioContainer", feature="opt:ref:Feature", tags="seq:any", variant="any")
for _n in ("diagnose_feature_usage_error", "diagnose_background_usage_error", "diagnose_scenario_usage_error",
           "diagnose_scenario_outline_usage_error"):
    contract(PR + "Parser.%s" % _n, props=["C05"], params={"self": "ref:Parser"}, self_classes=["Parser"], result="str", pure=True,
             ensures={"always-an-explanation-never-an-exception": "has_kind(result, 'str')"})

# -- statement builders: pending tags go to exactly one statement; the parser's cursor moves to the new statement ------------
shape("Parser", statement="opt:ref:BasicStatement", rule="any", examples="any", tags="seq:any")
shape("ScenarioOutline", examples="seq:ref:Examples")
for _cls, _extra in (("Feature", ["language"]), ("Rule", []), ("Scenario", []), ("ScenarioOutline", []), ("Examples", [])):
    contract("new:model.%s" % _cls, trusted=True, pos_params=["filename", "line", "keyword", "name"], kwarg="kw",
             params={"kw": "dict"}, fresh_result=_cls,
             ensures={"stores-the-tag-list-it-is-given": "result.tags is dict_value(kw, 'tags')"},
             doc="model.%s(filename, line, keyword, name, tags=...): the constructor stores the tag list (A: constructor)" % _cls)
contract("new:model.Background", trusted=True, pos_params=["filename", "line", "keyword", "name"], fresh_result="Background",
         doc="model.Background(...)")
contract("abs:container.add", trusted=True, pos_params=["item"],
         modifies=["lists", "item.parent", "item.feature", "item.rule", "item.background", "item._background_steps"],
         doc="feature.add_rule / container.add_scenario: appends to the container's lists and sets the item's back links")
contract("abs:container.add_background", trusted=True, pos_params=["item"],
         modifies=["lists", "*.background", "item.parent", "item.feature", "item.rule", "*._background_steps", "*._inherited_steps",
                   "*.inherited_background"],
         doc="container.add_background: stores the background in the container (and links inherited backgrounds)")
_TAGS_CONSUMED = {
    "the-pending-tags-go-to-the-new-statement": "%s.tags is old(self.tags)",
    "no-tag-stays-pending-and-the-list-is-not-shared": "is_fresh(self.tags) and len(self.tags) == 0 and self.tags is not old(self.tags)",
}
_BUILD_CALLS = {"model.Feature": "new:model.Feature", "model.Rule": "new:model.Rule", "model.Scenario": "new:model.Scenario",
                "model.ScenarioOutline": "new:model.ScenarioOutline", "model.Examples": "new:model.Examples",
                "model.Background": "new:model.Background", "ParserError": "new:ParserError",
                "self.feature.add_rule": "abs:container.add", "self.scenario_container.add_scenario": "abs:container.add",
                "self.scenario_container.add_background": "abs:container.add_background"}
_BUILD_MOD = ["self.tags", "self.statement", "self.feature", "self.rule", "self.scenario_container", "self.examples",
              "lists", "*.parent", "*.feature", "*.rule", "*.background", "*._background_steps"]
contract(PR + "Parser._build_feature", props=["C04"], params={"self": "ref:Parser", "keyword": "str", "line": "str"},
         self_classes=["Parser"], callsites=_BUILD_CALLS, modifies=_BUILD_MOD,
         ensures=dict({k: v % "as_ref(self.feature, 'Feature')" if "%s" in v else v for k, v in _TAGS_CONSUMED.items()}, **{
             "the-feature-becomes-the-scenario-container": "self.scenario_container is self.feature and is_none(self.rule) "
                                                           "and is_fresh(self.feature)"}))
contract(PR + "Parser._build_rule_statement", props=["C04", "C05"], params={"self": "ref:Parser", "keyword": "str", "line": "str"},
         self_classes=["Parser"], callsites=_BUILD_CALLS, modifies=_BUILD_MOD,
         ensures=dict({k: v % "as_ref(self.statement, 'Rule')" if "%s" in v else v for k, v in _TAGS_CONSUMED.items()}, **{
             "the-rule-becomes-current-statement-and-scenario-container":
                 "is_fresh(self.statement) and exact_type(self.statement, 'Rule') and self.rule is self.statement "
                 "and self.scenario_container is self.statement"}),
         doc="C05: after a Rule line the current statement is the rule, so an Examples line under it is rejected "
             "(`_build_examples` looks at self.statement)")
contract(PR + "Parser._build_scenario_statement", props=["C04"], params={"self": "ref:Parser", "keyword": "str", "line": "str"},
         self_classes=["Parser"], callsites=_BUILD_CALLS, modifies=_BUILD_MOD,
         ensures=dict({k: v % "as_ref(self.statement, 'Scenario')" if "%s" in v else v for k, v in _TAGS_CONSUMED.items()}, **{
             "the-scenario-becomes-the-current-statement": "is_fresh(self.statement) and exact_type(self.statement, 'Scenario')"}))
contract(PR + "Parser._build_scenario_outline_statement", props=["C04"], params={"self": "ref:Parser", "keyword": "str", "line": "str"},
         self_classes=["Parser"], callsites=_BUILD_CALLS, modifies=_BUILD_MOD,
         ensures=dict({k: v % "as_ref(self.statement, 'ScenarioOutline')" if "%s" in v else v for k, v in _TAGS_CONSUMED.items()}, **{
             "the-outline-becomes-the-current-statement": "is_fresh(self.statement) and exact_type(self.statement, 'ScenarioOutline')"}))
contract(PR + "Parser._build_examples", props=["C04", "C05", "C06", "C09"], params={"self": "ref:Parser", "keyword": "str", "line": "str"},
         self_classes=["Parser"], callsites=_BUILD_CALLS, modifies=_BUILD_MOD + ["list(as_ref(self.statement, 'ScenarioOutline').examples)"],
         raises=[Raises("ParserError", when="not typeof_is(self.statement, 'ScenarioOutline')", label="examples-outside-an-outline",
                        ensures={"reported-at-the-current-line": "exc.line == self.line"})],
         ensures=dict({k: v % "as_ref(self.examples, 'Examples')" if "%s" in v else v for k, v in _TAGS_CONSUMED.items()}, **{
             "appended-to-the-current-outline":
                 "self.statement is old(self.statement) and is_fresh(self.examples) and "
                 "len(as_ref(self.statement, 'ScenarioOutline').examples) == old(len(as_ref(self.statement, 'ScenarioOutline').examples)) + 1 "
                 "and as_ref(self.statement, 'ScenarioOutline').examples[len(as_ref(self.statement, 'ScenarioOutline').examples) - 1] "
                 "is self.examples"}))

# -- And/But as first step: the type of the last background step, without failing on a background that has no steps --------
shape("ScenarioContainer", background="opt:ref:Background")
# Step.step_type: see contracts/shapes.py
contract(PR + "Parser._select_last_background_step_type", props=["C05", "C04"], params={"self": "ref:Parser"},
         self_classes=["Parser"], result="opt:str",
         modifies=["*.status", "*.hook_failed", "*.duration", "*.exception", "*.exc_traceback", "*.error_message", "*.captured",
                   "*._inherited_steps"],
         ensures={"nothing-without-a-background": "implies(is_none(self.scenario_container) or "
                                                  "is_none(as_ref(self.scenario_container, 'ScenarioContainer').background), result is None)",
                  "type-of-the-last-own-background-step":
                      "implies(not is_none(self.scenario_container) and truthy(self.scenario_container) and "
                      "not is_none(as_ref(self.scenario_container, 'ScenarioContainer').background) and "
                      "truthy(as_ref(self.scenario_container, 'ScenarioContainer').background) and "
                      "len(as_ref(as_ref(self.scenario_container, 'ScenarioContainer').background, 'Background').steps) > 0, "
                      "result == as_ref(as_ref(self.scenario_container, 'ScenarioContainer').background, 'Background').steps["
                      "len(as_ref(as_ref(self.scenario_container, 'ScenarioContainer').background, 'Background').steps) - 1].step_type)"},
         doc="never raises (no `raises`): a Background without steps yields None, so And/But as first step is reported as "
             "ParserError by parse_step, not as IndexError")

# -- tag lines before the Feature keyword accumulate ---------------------------------------------------------------------
oracle("tags_of_line", ["ref", "val"], "val")
contract("abs:Parser.parse_tags.view", trusted=True, params={"self": "ref:Parser"}, pos_params=["self", "line"], fresh_result="list",
         raises=[Raises("ParserError", when=None)],
         ensures={"value": "len(result) == len(as_list(tags_of_line(self, line), 'any')) and forall(lambda k: implies(0 <= k < len(result), "
                           "result[k] == as_list(tags_of_line(self, line), 'any')[k]))"},
         doc="call-site view of parse_tags (its own contract, proved above, says which tags a line yields)")
contract("abs:Parser.match_keyword", trusted=True, params={"self": "ref:Parser"}, pos_params=["self", "keyword", "line"], pure=True,
         result="any", doc="keyword table lookup (bounded)")
contract("abs:Parser._build_feature.view", trusted=True, params={"self": "ref:Parser"}, pos_params=["self", "keyword", "line"],
         modifies=_BUILD_MOD, doc="call-site view of _build_feature (proved above)")
contract(PR + "Parser.action_initial", props=["C04"], params={"self": "ref:Parser", "line": "str"}, self_classes=["Parser"], result="bool",
         callsites={"self.parse_tags": "abs:Parser.parse_tags.view", "self.match_keyword": "abs:Parser.match_keyword",
                    "self._build_feature": "abs:Parser._build_feature.view"},
         raises=[Raises("ParserError", when=None, label="malformed-tag-line")],
         modifies=_BUILD_MOD + ["self.state", "list(self.tags)"],
         ensures={"a-tag-line-is-consumed-and-the-pending-list-grows-by-its-tags":
                  "implies(line.strip().startswith('@'), result == True and self.tags is old(self.tags) and "
                  "len(self.tags) == old(len(self.tags)) + old(len(as_list(tags_of_line(self, line.strip()), 'any'))))",
                  "a-tag-line-keeps-the-tags-of-earlier-lines":
                  "implies(line.strip().startswith('@'), "
                  "forall(lambda k: implies(0 <= k < old(len(self.tags)), self.tags[k] == old(self.tags[k]))))",
                  "a-tag-line-adds-its-tags-after-them-in-order":
                  "implies(line.strip().startswith('@'), forall(lambda j: implies(old(len(self.tags)) <= j and j < len(self.tags), "
                  "self.tags[j] == old(as_list(tags_of_line(self, line.strip()), 'any')[j - len(self.tags)]))))"},
         doc="feature tags may span several lines (with comments and blank lines between them): none is dropped")

# -- parse_step: the longest matching keyword alias over all step types wins ---------------------------------------------
TYPES5 = ("given", "when", "then", "and", "but")
macro("kwlist", ["p", "t"], "as_list(dict_value(p.keywords, t), 'str')")
macro("kw_matches", ["line", "a"], "(line.startswith(a) or line.lower().startswith(a.lower()))")
macro("t_index", ["t"], "ite(t == 'given', 0, ite(t == 'when', 1, ite(t == 'then', 2, ite(t == 'and', 3, 4))))")
shape("Parser", keywords="dict:seq:str")
contract("new:model.Step", trusted=True, pos_params=["filename", "line", "keyword", "step_type", "name"], fresh_result="Step",
         ensures={"stores": "result.keyword == keyword and result.step_type == step_type and result.name == name"},
         doc="model.Step(filename, line, keyword, step_type, name) stores its arguments (A: constructor)")
shape("Step", keyword="any")
contract("abs:Parser._select_last_background_step_type", trusted=True, params={"self": "ref:Parser"}, pos_params=["self"], pure=True,
         result="opt:str", doc="call-site view (proved above: never raises)")
_SCANNED = " and ".join(
    "implies(t_index('%(t)s') < t_index(step_type), forall(lambda k: implies(0 <= k < len(kwlist(self, '%(t)s')) and "
    "kw_matches(line, kwlist(self, '%(t)s')[k]), not is_none(selected) and "
    "len(kwlist(self, '%(t)s')[k]) <= len(as_str(as_tuple(selected, 'any')[1])))))" % {"t": t} for t in TYPES5)
contract(PR + "Parser.parse_step", props=["C04"], params={"self": "ref:Parser", "line": "str"}, self_classes=["Parser"],
         callsites={"model.Step": "new:model.Step", "ParserError": "new:ParserError",
                    "self._select_last_background_step_type": "abs:Parser._select_last_background_step_type"},
         locals={"selected": "opt:tuple:any", "kw": "str", "step_type": "str"},
         requires={"keyword-table-has-the-five-step-types": " and ".join("has_key(self.keywords, '%s')" % t for t in TYPES5)},
         modifies=["self.last_step_type"],
         raises=[Raises("ParserError", when=None, label="and-but-without-predecessor",
                        ensures={"reported-at-the-current-line": "exc.line == self.line"})],
         loops=[None,
                Loop(invariant={
                    "aliases-of-earlier-step-types-are-not-longer-than-the-selected-one": _SCANNED,
                    "aliases-of-this-step-type-so-far-are-not-longer-than-the-selected-one":
                        "forall(lambda k: implies(0 <= k < _i and kw_matches(line, _seq[k]), not is_none(selected) and "
                        "len(_seq[k]) <= len(as_str(as_tuple(selected, 'any')[1]))))",
                    "nothing-is-selected-unless-some-scanned-alias-matches":
                        "implies(" + " and ".join(
                            "implies(t_index('%(t)s') < t_index(step_type), forall(lambda k: implies(0 <= k < len(kwlist(self, '%(t)s')), "
                            "not kw_matches(line, kwlist(self, '%(t)s')[k]))))" % {"t": t} for t in TYPES5) +
                        " and forall(lambda k: implies(0 <= k < _i, not kw_matches(line, _seq[k]))), is_none(selected))",
                    "the-selected-alias-matches": "implies(not is_none(selected), has_kind(as_tuple(selected, 'any')[1], 'str') and "
                                                  "has_kind(as_tuple(selected, 'any')[0], 'str') and "
                                                  "len(as_tuple(selected, 'any')) == 3 and "
                                                  "kw_matches(line, as_str(as_tuple(selected, 'any')[1])))",
                    "same": "_seq is dict_value(self.keywords, step_type)"})],
         ensures={"the-step-keyword-is-a-longest-matching-alias-over-all-step-types":
                  "implies(not is_none(result), exists_val(lambda w: has_kind(w, 'str') and kw_matches(line, as_str(w)) and "
                  "as_ref(result, 'Step').keyword == as_str(w).rstrip() and as_ref(result, 'Step').name == line[len(as_str(w)):].strip() and "
                  + " and ".join("forall(lambda k: implies(0 <= k < len(kwlist(self, '%(t)s')) and kw_matches(line, kwlist(self, '%(t)s')[k]), "
                                 "len(kwlist(self, '%(t)s')[k]) <= len(as_str(w))))" % {"t": t} for t in TYPES5) + "))",
                  "no-matching-alias-no-step":
                  "implies(%s, result is None)" % " and ".join(
                      "forall(lambda k: implies(0 <= k < len(kwlist(self, '%s')), not kw_matches(line, kwlist(self, '%s')[k])))" % (t, t)
                      for t in TYPES5)})

_NOTE = ["the line-oriented state machine (Parser.action, action_* functions other than the two below), the content of the keyword "
         "tables of all languages, table cell splitting and doc-string de-indentation are string code: bounded stand-in only",
         "inside action_scenario, parse_step and the taggable-statement detection are seen through call-site views (parse_step's "
         "own body is proved: longest alias over all step types; the detection is trusted)",
         "startswith / lower / rstrip / slicing are uninterpreted functions of their arguments (A-str)"]
prop("C04", level="other", bounded=[],
     explanation="proved for the parser's small deciding pieces: a doc-string ends exactly at a line starting with the quotes that "
                 "opened it and every other line is collected; the first step of every scenario / outline is parsed without a "
                 "predecessor step type (And/But never inherit across scenarios); parse_tags yields one tag per '@' word in order "
                 "up to a comment; parse_step selects a longest matching alias over the aliases of *all* five step types (not the "
                 "first type that matches) and returns no step when none matches; every statement builder (_build_feature / rule / "
                 "scenario / outline / examples) hands the pending tag list to the new statement and leaves a new empty list (no tag "
                 "leaks to the next statement, no list shared), and moves the parser's current statement. Everything else (keywords of all languages, line numbers, cells, descriptions) is bounded: an "
                 "independent Gherkin writer with line-number oracle over all languages and keyword aliases",
     technique="contract-based deductive verification (own VC generator over the real ASTs, z3/cvc5) of three parser functions; "
               "bounded run-time contract stand-in (independent Gherkin writer) for the rest",
     notes=_NOTE)
prop("C05", level="other", bounded=[],
     explanation="proved: parse_tags lets only ParserError escape and its line number is usable (never 0); errors raised while a "
                 "scenario header/description is processed carry the current line; the failure-oracle helpers always return an "
                 "explanation and never raise themselves (no AttributeError on a missing feature/rule); And/But as first step of a "
                 "scenario cannot borrow a predecessor from an earlier scenario; _select_last_background_step_type never raises "
                 "(a Background without steps gives None, so parse_step reports ParserError at the current line); after a Rule line "
                 "the current statement is the rule and _build_examples raises ParserError at the current line exactly when the "
                 "current statement is not an outline. Bounded: every other path by which a malformed "
                 "text could raise something else than ParserError (line soups, fault injection at every position, all entry points)",
     technique="contract-based deductive verification (own VC generator over the real ASTs, z3/cvc5) of parse_tags, action_scenario "
               "and the failure oracle helpers; bounded fault-injection stand-in for the state machine",
     notes=_NOTE)

# -- a (re-used) parser starts every text from scratch: line counter, state machine and pending items -----------------
shape("I18nModule", languages="dict:dict:seq:str")
contract(PR + "Parser.reset", props=["C05", "C04"], params={"self": "ref:Parser", "filename": "any"}, self_classes=["Parser"],
         globals={"i18n": ("singleton", "I18nModule")}, lookup_raises=True, allow_raises=["KeyError"],
         modifies=["self.language", "self.keywords", "self.state", "self.line", "self.last_step_type", "self.multiline_start",
                   "self.multiline_leading", "self.multiline_terminator", "self.filename", "self.scenario_container",
                   "self.feature", "self.rule", "self.parent", "self.statement", "self.tags", "self.lines", "self.table",
                   "self.examples"],
         ensures={"line-counter-starts-at-zero (reported line numbers lie inside the text now parsed)": "self.line == 0",
                  "state-machine-starts-at-the-initial-state": "self.state == State.INITIAL",
                  "nothing-of-an-earlier-text-is-pending":
                      "len(self.tags) == 0 and is_fresh(self.tags) and len(self.lines) == 0 and is_fresh(self.lines) and "
                      "is_none(self.table) and is_none(self.statement) and is_none(self.examples) and is_none(self.feature) "
                      "and is_none(self.rule) and is_none(self.scenario_container) and is_none(self.last_step_type) "
                      "and is_none(self.multiline_terminator)",
                  "file-name-taken-over": "self.filename == filename"},
         doc="Context.execute_steps re-uses the feature's parser object for nested step texts; Parser.parse_steps and "
             "_parse_loop both rely on reset() for the line counter")
