# -*- coding: utf-8 -*-
"""C18 -- output capture isolates step output and always restores the real streams (DESIGN.md 5.18)."""
from pyvc.contracts import contract, oracle, Loop, shape, trusted_note, macro, virtual_class, Raises
from contracts import prop

CP = "behave.capture:"
P = ["C18"]
SYS = {"sys": ("singleton", "SysModule")}

virtual_class("Stream", bases=[], members=[])
shape("SysModule", stdout="ref:Stream", stderr="ref:Stream")
shape("CaptureController", config="ref:Configuration", stdout_capture="opt:ref:Stream",
      stderr_capture="opt:ref:Stream", log_capture="opt:ref:LoggingCapture",
      old_stdout="opt:ref:Stream", old_stderr="opt:ref:Stream")
shape("Configuration", stdout_capture="bool", stderr_capture="bool", log_capture="bool", dry_run="bool",
      stop="bool", show_skipped="bool", junit="bool", verbose="bool")

# controller invariant: a stream is saved exactly while the capture buffer is installed,
# and what is saved is never a capture buffer itself
macro("cinv", ["c", "s"],
      "implies(c.config.stdout_capture, not is_none(c.stdout_capture) "
      "and (not is_none(c.old_stdout)) == (s.stdout is c.stdout_capture) "
      "and implies(not is_none(c.old_stdout), c.old_stdout is not c.stdout_capture)) "
      "and implies(c.config.stderr_capture, not is_none(c.stderr_capture) "
      "and (not is_none(c.old_stderr)) == (s.stderr is c.stderr_capture) "
      "and implies(not is_none(c.old_stderr), c.old_stderr is not c.stderr_capture))")

contract(CP + "CaptureController.start_capture", props=P, params={"self": "ref:CaptureController"},
         globals=SYS, requires={"controller-invariant": "cinv(self, sys)"},
         modifies=["self.old_stdout", "self.old_stderr", "sys.stdout", "sys.stderr"],
         ensures={
             "stdout-redirected-and-real-stream-saved":
                 "implies(self.config.stdout_capture and is_none(old(self.old_stdout)), "
                 "self.old_stdout is old(sys.stdout) and sys.stdout is self.stdout_capture)",
             "stdout-already-capturing-unchanged":
                 "implies(self.config.stdout_capture and not is_none(old(self.old_stdout)), "
                 "self.old_stdout is old(self.old_stdout) and sys.stdout is old(sys.stdout))",
             "stdout-capture-off-passes-through":
                 "implies(not self.config.stdout_capture, sys.stdout is old(sys.stdout) and self.old_stdout is old(self.old_stdout))",
             "stderr-redirected-and-real-stream-saved":
                 "implies(self.config.stderr_capture and is_none(old(self.old_stderr)), "
                 "self.old_stderr is old(sys.stderr) and sys.stderr is self.stderr_capture)",
             "stderr-already-capturing-unchanged":
                 "implies(self.config.stderr_capture and not is_none(old(self.old_stderr)), "
                 "self.old_stderr is old(self.old_stderr) and sys.stderr is old(sys.stderr))",
             "stderr-capture-off-passes-through":
                 "implies(not self.config.stderr_capture, sys.stderr is old(sys.stderr) and self.old_stderr is old(self.old_stderr))",
             "invariant-kept": "cinv(self, sys)",
         })
contract(CP + "CaptureController.stop_capture", props=P, params={"self": "ref:CaptureController"},
         globals=SYS, requires={"controller-invariant": "cinv(self, sys)"},
         modifies=["self.old_stdout", "self.old_stderr", "sys.stdout", "sys.stderr"],
         ensures={
             "stdout-restored":
                 "implies(self.config.stdout_capture and not is_none(old(self.old_stdout)), "
                 "sys.stdout is old(self.old_stdout) and is_none(self.old_stdout))",
             "stdout-untouched-when-not-capturing":
                 "implies(not self.config.stdout_capture or is_none(old(self.old_stdout)), "
                 "sys.stdout is old(sys.stdout) and self.old_stdout is old(self.old_stdout))",
             "stderr-restored":
                 "implies(self.config.stderr_capture and not is_none(old(self.old_stderr)), "
                 "sys.stderr is old(self.old_stderr) and is_none(self.old_stderr))",
             "stderr-untouched-when-not-capturing":
                 "implies(not self.config.stderr_capture or is_none(old(self.old_stderr)), "
                 "sys.stderr is old(sys.stderr) and self.old_stderr is old(self.old_stderr))",
             "invariant-kept": "cinv(self, sys)",
             "nothing-left-redirected":
                 "implies(self.config.stdout_capture, sys.stdout is not self.stdout_capture) and "
                 "implies(self.config.stderr_capture, sys.stderr is not self.stderr_capture)",
         })
contract("new:StringIO", trusted=True, pos_params=[], fresh_result="Stream", doc="io.StringIO(): a fresh buffer object")
contract("new:LoggingCapture", trusted=True, pos_params=["config"], fresh_result="LoggingCapture",
         doc="LoggingCapture(config): fresh handler object")
contract("abs:LoggingCapture.inveigle", trusted=True, params={"self": "ref:LoggingCapture"}, pos_params=["self"],
         modifies=["G_log_installed"], ensures={"installed": "G_log_installed == old(G_log_installed) + 1"},
         doc="installs the handler on the root logger (logging module: bounded stand-in)")
contract("abs:LoggingCapture.abandon", trusted=True, params={"self": "ref:LoggingCapture"}, pos_params=["self"],
         modifies=["G_log_installed"], ensures={"removed": "G_log_installed == old(G_log_installed) - 1"},
         doc="removes the handler from the root logger and restores level/handlers (bounded stand-in)")
from pyvc.contracts import ghost
ghost("log_installed", "int")
contract("abs:Context.__setattr__", trusted=True, params={"self": "ref:Context"}, pos_params=["self", "attr", "value"],
         modifies=["G_ctx_writes"], ensures={"recorded": "G_ctx_writes == old(G_ctx_writes) + 1"},
         doc="context attribute store (layered-scope semantics proved under C13)")
ghost("ctx_writes", "int")

contract(CP + "CaptureController.setup_capture", props=P,
         params={"self": "ref:CaptureController", "context": "ref:Context"},
         globals={"StringIO": ("contract", "new:StringIO")},
         modifies=["self.stdout_capture", "self.stderr_capture", "self.log_capture", "G_ctx_writes", "G_log_installed"],
         ensures={
             "fresh-stdout-buffer-per-call":
                 "implies(self.config.stdout_capture, is_fresh(self.stdout_capture))",
             "fresh-stderr-buffer-per-call":
                 "implies(self.config.stderr_capture, is_fresh(self.stderr_capture) and self.stderr_capture is not self.stdout_capture)",
             "fresh-log-capture-installed":
                 "implies(self.config.log_capture, is_fresh(self.log_capture) and G_log_installed == old(G_log_installed) + 1)",
             "disabled-channels-untouched":
                 "implies(not self.config.stdout_capture, self.stdout_capture is old(self.stdout_capture)) and "
                 "implies(not self.config.stderr_capture, self.stderr_capture is old(self.stderr_capture)) and "
                 "implies(not self.config.log_capture, self.log_capture is old(self.log_capture) and G_log_installed == old(G_log_installed))",
         })
contract(CP + "CaptureController.teardown_capture", props=P, params={"self": "ref:CaptureController"},
         requires={"log-capture-set-up": "implies(self.config.log_capture, not is_none(self.log_capture))"},
         modifies=["G_log_installed"],
         ensures={"log-handler-removed-iff-configured":
                  "G_log_installed == old(G_log_installed) - (1 if self.config.log_capture else 0)"})

prop("C18", level="proof", bounded=[],
     explanation="CaptureController start/stop state machine proved (real streams saved, restored, never lost; pass-through "
                 "when capture is off; fresh per-scenario buffers); logging handler install/remove pairing proved as ghost "
                 "count; LoggingCapture internals, report text and real process streams are bounded (child processes)",
     notes=["sys.stdout/sys.stderr are modelled as two fields of a process-wide singleton object"])

# -- LoggingCapture.abandon: the root logger gets its level back, the capture handler is gone ------------------------------
from pyvc.contracts import global_const as _gc
L = "behave.log_capture:"
shape("RootLogger", handlers="seq:any", level="any")
shape("LoggingCapture", old_level="any", old_handlers="seq:any", config="ref:Configuration", level="any")
shape("Configuration", logging_clear_handlers="bool")
contract("abs:logging.getLogger.root", trusted=True, pos_params=[], pure=True, result="ref:RootLogger",
         ensures={"the-root-logger": "result is the_root_logger()"}, doc="logging.getLogger(): the process-wide root logger (A-lib)")
oracle("the_root_logger", [], "val")
contract("abs:RootLogger.setLevel", trusted=True, params={"self": "ref:RootLogger"}, pos_params=["self", "level"],
         modifies=["self.level"], ensures={"level-set": "self.level == level"}, doc="Logger.setLevel (A-lib)")
contract("abs:Logger.addHandler", trusted=True, pos_params=["self", "handler"], modifies=["lists"], doc="Logger.addHandler (A-lib)")
ROOT = "as_ref(the_root_logger(), 'RootLogger')"
contract(L + "LoggingCapture.abandon", props=["C18"], params={"self": "ref:LoggingCapture"}, self_classes=["LoggingCapture"],
         callsites={"logging.getLogger": "abs:logging.getLogger.root", "logger.addHandler": "abs:Logger.addHandler"},
         modifies=["self.old_level", "*.level", "lists", "dicts"], allow_raises=["ValueError"],
         loops=[Loop(invariant={"level": "%s.level == old(%s.level) and self.old_level == old(self.old_level)" % (ROOT, ROOT)}),
                Loop(invariant={"level": "%s.level == old(%s.level) and self.old_level == old(self.old_level)" % (ROOT, ROOT)})],
         ensures={"saved-level-restored-whatever-its-value":
                  "implies(not is_none(old(self.old_level)), %s.level == old(self.old_level) and is_none(self.old_level))" % ROOT,
                  "nothing-saved-nothing-changed": "implies(is_none(old(self.old_level)), %s.level == old(%s.level))" % (ROOT, ROOT)})

# -- CaptureController.captured: each part of the stored output is the text of ITS OWN capture buffer ----------------
oracle("buffer_text", ["val"], "val:str")     # what a capture buffer holds (StringIO.getvalue / LoggingCapture.getvalue)
oracle("cap_out", ["ref"], "val")
oracle("cap_err", ["ref"], "val")
oracle("cap_log", ["ref"], "val")
contract("abs:buffer.getvalue", trusted=True, pos_params=["self"], pure=True, result="str",
         ensures={"value": "result == buffer_text(self)"}, doc="StringIO.getvalue() / LoggingCapture.getvalue(): the text captured so far")
contract("new:Captured", trusted=True, pos_params=["stdout", "stderr", "log_output"],
         defaults={"stdout": None, "stderr": None, "log_output": None}, fresh_result="Captured",
         ensures={"parts": "cap_out(result) == stdout and cap_err(result) == stderr and cap_log(result) == log_output"},
         doc="Captured(stdout, stderr, log_output): a holder of the three parts (None is stored as the empty text)")
contract(CP + "CaptureController.captured", props=P, params={"self": "ref:CaptureController"}, self_classes=["CaptureController"],
         result="ref:Captured", pure=True,
         callsites={"self.stdout_capture.getvalue": "abs:buffer.getvalue", "self.stderr_capture.getvalue": "abs:buffer.getvalue",
                    "self.log_capture.getvalue": "abs:buffer.getvalue", "Captured": "new:Captured"},
         ensures={
             "stdout-part-is-the-text-of-the-stdout-buffer-if-stdout-is-captured":
                 "cap_out(result) == (buffer_text(self.stdout_capture) if self.config.stdout_capture and "
                 "not is_none(self.stdout_capture) else None)",
             "stderr-part-is-the-text-of-the-stderr-buffer-if-stderr-is-captured":
                 "cap_err(result) == (buffer_text(self.stderr_capture) if self.config.stderr_capture and "
                 "not is_none(self.stderr_capture) else None)",
             "log-part-is-the-text-of-the-log-capture-if-logging-is-captured":
                 "cap_log(result) == (buffer_text(self.log_capture) if self.config.log_capture and "
                 "truthy(self.log_capture) else None)"},    # a LoggingCapture without records is falsy: its text is empty anyway
         doc="what Scenario.run / Step.run store as captured output and the reporters print: a part is present exactly when "
             "its own capture is configured and set up")
