# -*- coding: utf-8 -*-
"""C11 (registration histories) -- every step module is loaded with the default step matcher in force:
load_step_modules resets the matcher after each module (a module may switch it 0..N times)."""
from pyvc.contracts import contract, oracle, ghost, Loop, Raises, shape, global_const
from contracts import prop

RU = "behave.runner_util:"
ghost("matcher_is_default", "bool")     # the current step matcher is the default one
ghost("nloaded", "int")
contract("abs:exec_file", trusted=True, pos_params=["filename", "globals_"], modifies=["G_matcher_is_default", "G_nloaded"],
         requires={"module-starts-with-the-default-matcher": "G_matcher_is_default"},
         ensures={"loaded": "G_nloaded == old(G_nloaded) + 1"},
         doc="exec_file(path, globals): runs a step module, which may call use_step_matcher() any number of times (A-user)")
contract("abs:use_default_step_matcher", trusted=True, pos_params=[], modifies=["G_matcher_is_default"],
         ensures={"default-restored": "G_matcher_is_default == True"}, doc="behave.api.step_matchers.use_default_step_matcher()")
contract("abs:use_current_step_matcher_as_default", trusted=True, pos_params=[], modifies=["G_matcher_is_default"],
         ensures={"current-is-default": "G_matcher_is_default == True"},
         doc="behave.matchers.use_current_step_matcher_as_default(): whatever environment.py selected becomes the default")
contract("abs:setup_step_decorators", trusted=True, pos_params=["context"], modifies=["dict(context)"])
contract("lib:os.listdir", trusted=True, pos_params=["path"], pure=False, result="seq:str", fresh_result=None,
         doc="os.listdir (A-lib)")
contract("lib:os.path.join", trusted=True, pos_params=["a", "b"], pure=True, result="str")
contract("ctx:PathManager.enter", trusted=True, pos_params=[], pure=True)
contract("ctx:PathManager.exit", trusted=True, pos_params=[], pure=True)
contract(RU + "load_step_modules", props=["C11"], params={"step_paths": "seq:str"},
         callsites={"exec_file": "abs:exec_file", "use_default_step_matcher": "abs:use_default_step_matcher",
                    "use_current_step_matcher_as_default": "abs:use_current_step_matcher_as_default",
                    "setup_step_decorators": "abs:setup_step_decorators", "os.listdir": "lib:os.listdir",
                    "os.path.join": "lib:os.path.join"},
         with_items={"PathManager(step_paths)": ("ctx:PathManager.enter", "ctx:PathManager.exit")},
         exprs={"step_globals.copy()": ("fresh", "dict")},
         modifies=["G_matcher_is_default", "G_nloaded", "lists", "dicts"],
         loops=[Loop(invariant={"default-matcher-in-force-between-directories": "G_matcher_is_default"}),
                Loop(invariant={"default-matcher-in-force-between-modules": "G_matcher_is_default"})],
         ensures={"default-matcher-in-force-afterwards": "G_matcher_is_default"},
         doc="the precondition of the abstract exec_file is the property: each module starts under the default matcher")

# -- registration: duplicates ignored, ambiguous patterns rejected -------------------------------------------------
S = "behave.step_registry:"
oracle("good_def", ["val"], "bool")               # step_matcher.compile() succeeds
oracle("lower", ["val"], "val:str")
contract("abs:make_step_matcher", trusted=True, pos_params=["func", "step_text", "step_type"], fresh_result="Matcher",
         ensures={"holds-what-was-registered": "result.pattern == step_text and result.step_type == step_type and result.func == func"},
         doc="make_step_matcher(func, pattern, step_type): a matcher object of the current matcher class (A: factory)")
contract("abs:StepRegistry.is_good_step_definition", trusted=True, params={"self": "ref:StepRegistry"},
         pos_params=["self", "step_matcher"], pure=True, result="bool",
         ensures={"value": "result == good_def(step_matcher)"}, doc="compile() of the pattern succeeds (bad definitions are reported and ignored)")
contract("abs:StepRegistry.same_step_definition", trusted=True, pos_params=["step", "other_pattern", "other_location"],
         pure=True, result="bool", ensures={"value": "result == same_def(step, other_pattern, other_location)"},
         doc="same pattern at the same source location (a step module imported twice)")
contract("abs:Matcher.describe", trusted=True, params={"self": "ref:Matcher"}, pos_params=["self", "schema"],
         defaults={"schema": None}, pure=True, result="str")
contract("abs:Matcher.location", trusted=True, params={"self": "ref:Matcher"}, pure=True, result="any",
         ensures={"value": "result == loc_of(self)"})
oracle("loc_of", ["ref"], "val")
contract("lib:str.lower", trusted=True, pos_params=["self"], pure=True, result="str", ensures={"value": "result == lower(self)"})
DEFS = "as_list(dict_value(self.steps, lower(keyword)), 'ref:Matcher')"
from pyvc.contracts import external_exception
contract(S + "StepRegistry.add_step_definition", props=["C11"],
         params={"self": "ref:StepRegistry", "keyword": "str", "step_text": "str", "func": "any"},
         self_classes=["StepRegistry"],
         requires={"known-step-type": "has_key(self.steps, lower(keyword))"},
         callsites={"make_step_matcher": "abs:make_step_matcher", "_text": "lib:textutil.text",
                    "keyword.lower": "lib:str.lower"},
         exprs={"existing.describe(existing.SCHEMA_AT_LOCATION)": ("fresh", "str")},
         modifies=["list(dict_value(self.steps, lower(keyword)))"],
         raises=[Raises("AmbiguousStep", label="an-existing-definition-of-that-type-matches-the-new-pattern",
                        when=None,
                        ensures={"registry-unchanged": "len(%s) == old(len(%s))" % (DEFS, DEFS),
                                 "only-when-an-existing-definition-matches-the-new-pattern":
                                 "exists(lambda j: 0 <= j < old(len(%s)) and matches_text(old(%s[j]), step_text))" % (DEFS, DEFS)})],
         loops=[Loop(invariant={
             "no-earlier-definition-is-the-same-or-matches":
                 "forall(lambda k: implies(0 <= k < _i, not same_def(_at(k), step_text, loc_of(new_step_matcher)) "
                 "and not matches_text(_at(k), step_text)))",
             "same-list": "_seq is dict_value(self.steps, lower(keyword)) and len(%s) == old(len(%s))" % (DEFS, DEFS)})],
         ensures={
             "earlier-definitions-kept-in-order":
                 "len(%s) >= old(len(%s)) and forall(lambda k: implies(0 <= k < old(len(%s)), %s[k] is old(%s[k])))"
                 % (DEFS, DEFS, DEFS, DEFS, DEFS),
             "at-most-one-definition-added": "len(%s) <= old(len(%s)) + 1" % (DEFS, DEFS),
             "a-new-definition-is-appended-only-if-no-existing-one-is-the-same-or-matches-its-pattern":
                 "implies(len(%s) == old(len(%s)) + 1, exact_type(%s[len(%s) - 1], 'Matcher') and is_fresh(%s[len(%s) - 1]) and "
                 "%s[len(%s) - 1].pattern == step_text and %s[len(%s) - 1].step_type == lower(keyword) and "
                 "forall(lambda k: implies(0 <= k < old(len(%s)), not matches_text(old(%s[k]), step_text))))"
                 % ((DEFS,) * 12),
         })

# -- "the very same definition": same pattern at the same *real* source location --------------------------------
contract(S + "StepRegistry.same_step_definition", props=["C11"],
         params={"step": "ref:Matcher", "other_pattern": "any", "other_location": "ref:FileLocation"},
         result="bool", pure=True,
         ensures={
             "the-same-only-with-an-equal-pattern": "implies(result, step.pattern == other_pattern)",
             "the-same-only-at-an-equal-location": "implies(result, loc_of(step) == other_location)",
             "a-location-in-the-pseudo-file-<string>-identifies-no-function":
                 "implies(other_location.filename == '<string>', not result)",
             "equal-pattern-at-an-equal-real-location-is-the-same-definition":
                 "implies(step.pattern == other_pattern and loc_of(step) == other_location and "
                 "other_location.filename != '<string>', result)",
         },
         doc="code compiled from strings (exec, REPL, generated step libraries) all lives in '<string>': an equal (file, line) "
             "there does not make two functions the very same definition, so such a re-registration must reach the ambiguity check")
