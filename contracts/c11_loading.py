# -*- coding: utf-8 -*-
"""C11 (registration histories) -- every step module is loaded with the default step matcher in force:
load_step_modules resets the matcher after each module (a module may switch it 0..N times)."""
from pyvc.contracts import contract, oracle, ghost, Loop, Raises, shape, global_const
from contracts import prop

RU = "behave.runner_util:"
ghost("matcher_is_default", "bool")     # the current step matcher is the default one
ghost("nloaded", "int")
contract("abs:exec_file", trusted=True, pos_params=["filename", "globals_"], modifies=["G_matcher_is_default", "G_nloaded"],
         requires={"module-starts-with-the-default-matcher": "G_matcher_is_default"},
         ensures={"loaded": "G_nloaded == old(G_nloaded) + 1"},
         doc="exec_file(path, globals): runs a step module, which may call use_step_matcher() any number of times (A-user)")
contract("abs:use_default_step_matcher", trusted=True, pos_params=[], modifies=["G_matcher_is_default"],
         ensures={"default-restored": "G_matcher_is_default == True"}, doc="behave.api.step_matchers.use_default_step_matcher()")
contract("abs:use_current_step_matcher_as_default", trusted=True, pos_params=[], modifies=["G_matcher_is_default"],
         ensures={"current-is-default": "G_matcher_is_default == True"},
         doc="behave.matchers.use_current_step_matcher_as_default(): whatever environment.py selected becomes the default")
contract("abs:setup_step_decorators", trusted=True, pos_params=["context"], modifies=["dict(context)"])
contract("lib:os.listdir", trusted=True, pos_params=["path"], pure=False, result="seq:str", fresh_result=None,
         doc="os.listdir (A-lib)")
contract("lib:os.path.join", trusted=True, pos_params=["a", "b"], pure=True, result="str")
contract("ctx:PathManager.enter", trusted=True, pos_params=[], pure=True)
contract("ctx:PathManager.exit", trusted=True, pos_params=[], pure=True)
contract(RU + "load_step_modules", props=["C11"], params={"step_paths": "seq:str"},
         callsites={"exec_file": "abs:exec_file", "use_default_step_matcher": "abs:use_default_step_matcher",
                    "use_current_step_matcher_as_default": "abs:use_current_step_matcher_as_default",
                    "setup_step_decorators": "abs:setup_step_decorators", "os.listdir": "lib:os.listdir",
                    "os.path.join": "lib:os.path.join"},
         with_items={"PathManager(step_paths)": ("ctx:PathManager.enter", "ctx:PathManager.exit")},
         exprs={"step_globals.copy()": ("fresh", "dict")},
         modifies=["G_matcher_is_default", "G_nloaded", "lists", "dicts"],
         loops=[Loop(invariant={"default-matcher-in-force-between-directories": "G_matcher_is_default"}),
                Loop(invariant={"default-matcher-in-force-between-modules": "G_matcher_is_default"})],
         ensures={"default-matcher-in-force-afterwards": "G_matcher_is_default"},
         doc="the precondition of the abstract exec_file is the property: each module starts under the default matcher")
