# -*- coding: utf-8 -*-
"""C09 -- tag selection with inheritance: the selection functions themselves under contract.

* effective_tags (generic and the ScenarioOutline override): own tags united with the parent's effective tags,
  by recursion on the parent chain -- eff_tag(e, t) is *defined* by that recursion and the getters are proved
  to return exactly the set {t | eff_tag(e, t)} (the abstract contract the run methods rely on);
* container / outline should_run_with_tags: own match or some child matches.
Scenario.run's "not selected => no hook, no step function, all steps skipped, not failed" is in run_scenario.py.
tag_expression.check(set) itself: C07/C08.
"""
from pyvc.contracts import contract, oracle, Loop, macro, shape, trusted_note
from contracts import prop

MC = "behave.model_core:"
M = "behave.model:"
P = ["C09", "C12", "C01"]     # selection decides which hooks run (C12) and what the verdict is about (C01)

oracle("param_tag", ["val"], "bool")      # ScenarioOutlineBuilder.is_parametrized_tag(tag): the tag contains a <placeholder>
contract("abs:is_parametrized_tag", trusted=True, pos_params=["tag"], pure=True, result="bool",
         ensures={"value": "result == param_tag(tag)"}, doc="regular-expression test for '<...>' in a tag (A-lib: re)")
OWN = "exists(lambda k: 0 <= k < len(self.tags) and self.tags[k] == t)"
OWN_CONCRETE = "exists(lambda k: 0 <= k < len(self.tags) and self.tags[k] == t and not param_tag(self.tags[k]))"
PARENT = "(truthy(self.parent) and eff_tag(as_ref(self.parent, 'TagAndStatusStatement'), t))"
contract(MC + "TagAndStatusStatement.effective_tags", props=P, params={"self": "ref:TagAndStatusStatement"},
         self_classes=["Feature", "Rule", "Scenario"], fresh_result=None, result="set",
         assume={"definition-of-eff_tag (own tags united with the parent's effective tags)":
                 "forall_val(lambda t: eff_tag(self, t) == (%s or %s))" % (OWN, PARENT)},
         ensures={"exactly-the-own-and-inherited-tags": "forall_val(lambda t: has_key(result, t) == eff_tag(self, t))",
                  "a-new-set": "is_fresh(result)"})
contract(M + "ScenarioOutline.effective_tags", props=P, params={"self": "ref:ScenarioOutline"},
         self_classes=["ScenarioOutline"], result="set",
         callsites={"ScenarioOutlineBuilder.is_parametrized_tag": "abs:is_parametrized_tag"},
         assume={"definition-of-eff_tag for an outline (its non-parametrised tags united with the parent's effective tags)":
                 "forall_val(lambda t: eff_tag(self, t) == (%s or %s))" % (OWN_CONCRETE, PARENT)},
         ensures={"exactly-the-own-concrete-and-inherited-tags": "forall_val(lambda t: has_key(result, t) == eff_tag(self, t))",
                  "a-new-set": "is_fresh(result)"})

# -- own match or some child matches ------------------------------------------------------------------
oracle("item_selected", ["val", "val"], "bool")       # run_item.should_run_with_tags(expr): dynamic dispatch over the item's kind
oracle("set_check", ["val", "val"], "bool")           # tag_expression.check(a set of tags)
contract("abs:tag_expression.check", trusted=True, pos_params=["self", "tags"], pure=True, result="bool",
         ensures={"value": "result == set_check(self, tags)"},
         doc="tag_expression.check(tags): pure function of the expression object and the tag set (C07/C08)")
contract("abs:RunItem.should_run_with_tags", trusted=True, params={"self": "ref:RunItem"},
         pos_params=["self", "tag_expression"], pure=True, result="bool",
         ensures={"value": "result == item_selected(tag_expression, self)"},
         doc="dynamic dispatch target: Scenario (own check), ScenarioOutline and Rule (proved below)")
RI = "as_list(self.run_items, 'ref:RunItem')"
TAGCHECK_DEF = {"definition-of-tag_check (the expression checked on any set holding exactly the element's effective tags)":
                "forall_val(lambda s: implies(forall_val(lambda t: has_key(s, t) == eff_tag(self, t)), "
                "set_check(tag_expression, s) == tag_check(tag_expression, self)))"}
contract(M + "ScenarioContainer.should_run_with_tags", props=P,
         params={"self": "ref:ScenarioContainer", "tag_expression": "any"}, self_classes=["Feature", "Rule"],
         callsites={"tag_expression.check": "abs:tag_expression.check"}, assume=TAGCHECK_DEF,
         modifies=["*._scenarios", "*.index", "*.id", "*.modified"], result="bool",
         loops=[Loop(invariant={"no-earlier-item-selected":
                                "forall(lambda k: implies(0 <= k < _i, not item_selected(tag_expression, _at(k))))",
                                "same-items": "_seq is self.run_items"})],
         ensures={"own-effective-tags-match-or-some-run-item-is-selected":
                  "result == (tag_check(tag_expression, self) or "
                  "exists(lambda k: 0 <= k < len(%s) and item_selected(tag_expression, %s[k])))" % (RI, RI)})
ROWS = "as_list(rows_of(self), 'ref:Scenario')"
contract(M + "ScenarioOutline.should_run_with_tags", props=P,
         params={"self": "ref:ScenarioOutline", "tag_expression": "any"}, self_classes=["ScenarioOutline"],
         callsites={"tag_expression.check": "abs:tag_expression.check"}, assume=TAGCHECK_DEF,
         modifies=["*._scenarios", "*.index", "*.id", "*.modified"], result="bool",
         loops=[Loop(invariant={"no-earlier-row-selected":
                                "forall(lambda k: implies(0 <= k < _i, not tag_check(tag_expression, _at(k))))",
                                "same-rows": "_seq is rows_of(self)"})],
         ensures={"own-concrete-tags-match-or-some-row-is-selected":
                  "result == (tag_check(tag_expression, self) or "
                  "exists(lambda k: 0 <= k < len(%s) and tag_check(tag_expression, %s[k])))" % (ROWS, ROWS)})
contract(MC + "TagAndStatusStatement.should_run_with_tags", props=P,
         params={"self": "ref:TagAndStatusStatement", "tag_expression": "any"}, self_classes=["Scenario"],
         callsites={"tag_expression.check": "abs:tag_expression.check"}, assume=TAGCHECK_DEF, result="bool", pure=True,
         ensures={"the-expression-checked-on-the-effective-tags": "result == tag_check(tag_expression, self)"})
