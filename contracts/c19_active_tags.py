# -*- coding: utf-8 -*-
"""C19 -- active tags exclude exactly by the documented per-category logic (DESIGN.md 5.19)."""
from pyvc.contracts import contract, oracle, Loop, Raises, macro, global_const, shape, trusted_note
from contracts import prop

T = "behave.tag_matcher:"
P = ["C19"]

global_const("Unknown", ("sentinel", 1))
shape("ActiveTagMatcher", value_provider="any", tag_pattern="any", tag_prefixes="any",
      ignore_unknown_categories="bool", exclude_reason="any")
shape("CompositeTagMatcher", tag_matchers="seq:ref:TagMatcher")
shape("ValueObject", _value="any", compare="any")

# -- abstractions of library / user objects (A) ---------------------------------------
oracle("provider_value", ["val", "val"], "val")          # value_provider.get(category, Unknown)
oracle("match_group", ["val", "val"], "val:str")         # re.Match.group(name)
oracle("vo_key", ["ref"], "val")                         # the current value a ValueObject stands for
oracle("cur_matches", ["val", "val"], "bool")            # "current value matches tag value"
oracle("groups_of", ["ref", "val"], "val")               # group_active_tags_by_category(tags) as a list
oracle("excludes", ["ref", "val"], "bool")               # member.should_exclude_with(tags)

contract("abs:provider.get", trusted=True, pos_params=["self", "category", "default"], pure=True,
         ensures={"value": "result == provider_value(self, category)"},
         doc="value_provider.get(category, Unknown): any dict-like provider (A-user)")
contract("abs:re.Match.group", trusted=True, pos_params=["self", "name"], pure=True, result="str",
         ensures={"value": "result == match_group(self, name)"})
contract("new:ValueObject", trusted=False, pos_params=["value", "compare"], defaults={"compare": None},
         fresh_result="ValueObject", pure=False,
         ensures={"wraps": "vo_key(result) == value"},
         doc="ValueObject(value): stands for the plain current value (compare == operator.eq)")
contract("abs:ValueObject.matches", trusted=True, params={"self": "ref:ValueObject"},
         pos_params=["self", "tag_value"], pure=True, result="bool",
         ensures={"value": "result == cur_matches(vo_key(self), tag_value)"},
         doc="dynamic dispatch target: every override is proved below (Number/Bool) or is the base")
trusted_note("abs:ValueObject.matches", "ValueObject.matches abstracted to cur_matches(current value, tag value); "
             "user-supplied compare functions are pure and do not raise (A-user)")

# -- the per-category logic ------------------------------------------------------------
PAIR = "as_list(as_list(%s, 'any')[%s], 'any')[1]"
macro("pair_neg", ["pairs", "k"],
      "str_startswith(match_group(as_tuple(as_list(pairs, 'any')[k])[1], 'prefix'), 'not')")
macro("pair_match", ["cv", "pairs", "k"],
      "cur_matches(cv, match_group(as_tuple(as_list(pairs, 'any')[k])[1], 'value'))")
# documented logic: enabled <=> (no positive tag or some positive tag matches) and no negative tag matches
macro("group_logic", ["cv", "pairs"],
      "((not exists(lambda i: 0 <= i < len(as_list(pairs, 'any')) and not pair_neg(pairs, i))) "
      " or exists(lambda i: 0 <= i < len(as_list(pairs, 'any')) and not pair_neg(pairs, i) and pair_match(cv, pairs, i)))"
      " and not exists(lambda i: 0 <= i < len(as_list(pairs, 'any')) and pair_neg(pairs, i) and pair_match(cv, pairs, i))")
macro("group_enabled", ["m", "category", "pairs"],
      "len(as_list(pairs, 'any')) == 0 "
      "or (provider_value(m.value_provider, category) is Unknown and m.ignore_unknown_categories) "
      "or group_logic(provider_value(m.value_provider, category), pairs)")

contract(T + "ActiveTagMatcher.is_tag_negated", inline=True, params={"tag": "str"}, props=P,
         result="bool", ensures={"negated-iff-not-prefix": "result == str_startswith(tag, 'not')"})

contract(T + "ActiveTagMatcher.is_tag_group_enabled", props=P,
         params={"self": "ref:ActiveTagMatcher", "group_category": "str", "group_tag_pairs": "seq:any"},
         self_classes=["ActiveTagMatcher"], result="bool",
         callsites={"self.value_provider.get": "abs:provider.get", "tag_match.group": "abs:re.Match.group"},
         assume={"value-objects-stand-for-themselves":
                 "implies(typeof_is(provider_value(self.value_provider, group_category), 'ValueObject'), "
                 "vo_key(as_ref(provider_value(self.value_provider, group_category), 'ValueObject')) "
                 "== provider_value(self.value_provider, group_category))",
                 "pairs-belong-to-the-category":
                 "forall(lambda k: implies(0 <= k < len(group_tag_pairs), "
                 "match_group(as_tuple(group_tag_pairs[k])[1], 'category') == group_category))"},
         loops=[Loop(invariant={
             "positive-any": "exists(lambda j: 0 <= j < len(positive_tags_matched) and as_list(positive_tags_matched, 'bool')[j]) == "
                             "exists(lambda k: 0 <= k < _i and not pair_neg(group_tag_pairs, k) "
                             "and pair_match(vo_key(current_value), group_tag_pairs, k))",
             "positive-count": "(len(positive_tags_matched) > 0) == "
                               "exists(lambda k: 0 <= k < _i and not pair_neg(group_tag_pairs, k))",
             "negative-any": "exists(lambda j: 0 <= j < len(negative_tags_matched) and as_list(negative_tags_matched, 'bool')[j]) == "
                             "exists(lambda k: 0 <= k < _i and pair_neg(group_tag_pairs, k) "
                             "and pair_match(vo_key(current_value), group_tag_pairs, k))",
             "all-bools": "forall(lambda j: implies(0 <= j < len(positive_tags_matched), has_kind(positive_tags_matched[j], 'bool'))) "
                          "and forall(lambda j: implies(0 <= j < len(negative_tags_matched), has_kind(negative_tags_matched[j], 'bool')))",
             "lens": "len(positive_tags_matched) >= 0 and len(negative_tags_matched) >= 0 and _seq is group_tag_pairs",
         })],
         ensures={
             "empty-group-enabled": "implies(len(group_tag_pairs) == 0, result == True)",
             "unknown-category-never-excludes":
                 "implies(len(group_tag_pairs) > 0 and provider_value(self.value_provider, group_category) is Unknown "
                 "and self.ignore_unknown_categories, result == True)",
             "documented-category-logic":
                 "implies(len(group_tag_pairs) > 0 and not (provider_value(self.value_provider, group_category) is Unknown "
                 "and self.ignore_unknown_categories), "
                 "result == group_logic(provider_value(self.value_provider, group_category), group_tag_pairs))",
         })

contract("abs:ActiveTagMatcher.group_active_tags_by_category", trusted=True,
         params={"self": "ref:ActiveTagMatcher"}, pos_params=["self", "tags"], pure=True,
         result="seq:any", ensures={"value": "result is groups_of(self, tags)"},
         doc="generator (outside the subset): grouping by category is checked by the bounded stand-in")
trusted_note("abs:ActiveTagMatcher.group_active_tags_by_category",
             "group_active_tags_by_category is a generator: abstracted to a list groups_of(matcher, tags); "
             "the grouping itself (schema regex, per-category partition) is only checked bounded")

GK = "as_tuple(as_list(groups_of(self, tags), 'any')[k])"
contract(T + "ActiveTagMatcher.should_exclude_with", props=P,
         params={"self": "ref:ActiveTagMatcher", "tags": "any"}, self_classes=["ActiveTagMatcher"],
         result="bool", modifies=["self.exclude_reason"],
         callsites={"self.value_provider.get": "abs:provider.get"},
         loops=[Loop(invariant={
             "earlier-groups-enabled":
                 "forall(lambda k: implies(0 <= k < _i, group_enabled(self, %s[0], %s[1])))" % (GK, GK),
             "same": "len(_seq) == len(as_list(groups_of(self, tags), 'any')) and "
                     "forall(lambda k: implies(0 <= k < len(_seq), _seq[k] == as_list(groups_of(self, tags), 'any')[k]))",
         })],
         ensures={"excluded-iff-some-category-disabled":
                  "result == exists(lambda k: 0 <= k < len(as_list(groups_of(self, tags), 'any')) "
                  "and not group_enabled(self, %s[0], %s[1]))" % (GK, GK)})

contract("abs:TagMatcher.should_exclude_with", trusted=True, params={"self": "ref:TagMatcher"},
         pos_params=["self", "tags"], pure=True, result="bool",
         ensures={"value": "result == excludes(self, tags)"},
         doc="dynamic dispatch target for composite members / should_run_with")
contract(T + "TagMatcher.should_run_with", props=P, params={"self": "ref:TagMatcher", "tags": "any"},
         result="bool", ensures={"run-iff-not-excluded": "result == (not excludes(self, tags))"})
contract(T + "CompositeTagMatcher.should_exclude_with", props=P,
         params={"self": "ref:CompositeTagMatcher", "tags": "any"}, self_classes=["CompositeTagMatcher"],
         result="bool",
         loops=[Loop(invariant={
             "none-earlier": "forall(lambda k: implies(0 <= k < _i, not excludes(_seq[k], tags)))",
             "same": "_seq is self.tag_matchers"})],
         ensures={"any-member-excludes":
                  "result == exists(lambda k: 0 <= k < len(self.tag_matchers) and excludes(self.tag_matchers[k], tags))"})

# -- value objects -------------------------------------------------------------------
oracle("vo_compare", ["ref", "val"], "bool")
contract("abs:ValueObject.matches#base", trusted=True, params={"self": "ref:ValueObject"},
         pos_params=["self", "tag_value"], pure=True, result="bool",
         ensures={"value": "result == vo_compare(self, tag_value)"})
contract(T + "ValueObject.on_type_conversion_error", inline=True)
contract(T + "NumberValueObject.matches", props=P,
         params={"self": "ref:NumberValueObject", "tag_value": "str"}, result="bool",
         callsites={"super(NumberValueObject, self).matches": "abs:ValueObject.matches#base"},
         ensures={"malformed-number-does-not-match": "implies(not int_parses(tag_value), result == False)",
                  "compares-the-number": "implies(int_parses(tag_value), result == vo_compare(self, int_of(tag_value)))"})

oracle("lower", ["val"], "val:str")
TRUES = "('true', 'yes', 'on')"
FALSES = "('false', 'no', 'off')"
contract(T + "BoolValueObject.to_bool", props=P, params={"value": "str"}, result="bool",
         callsites={"value.lower": "lib:str.lower"},
         raises=[Raises("ValueError", when="not (lower(value) in %s) and not (lower(value) in %s)" % (TRUES, FALSES),
                        label="neither-a-true-word-nor-a-false-word")],
         ensures={"true-words": "implies(lower(value) in %s, result == True)" % TRUES,
                  "false-words": "implies(lower(value) in %s, result == False)" % FALSES})
contract("abs:BoolValueObject.to_bool", trusted=False, pos_params=["value"], pure=True, result="bool",
         raises=[Raises("ValueError", when="not (lower(value) in %s) and not (lower(value) in %s)" % (TRUES, FALSES))],
         ensures={"value": "result == (lower(value) in %s)" % TRUES},
         doc="call-site view of to_bool for a string (proved above)")
contract(T + "BoolValueObject.matches", props=P,
         params={"self": "ref:BoolValueObject", "tag_value": "str"}, result="bool", self_classes=["BoolValueObject"],
         callsites={"super(BoolValueObject, self).matches": "abs:ValueObject.matches#base", "self.to_bool": "abs:BoolValueObject.to_bool"},
         ensures={"malformed-boolean-word-does-not-match":
                  "implies(not (lower(tag_value) in %s) and not (lower(tag_value) in %s), result == False)" % (TRUES, FALSES),
                  "compares-the-boolean":
                  "implies((lower(tag_value) in %s) or (lower(tag_value) in %s), result == vo_compare(self, lower(tag_value) in %s))"
                  % (TRUES, FALSES, TRUES)})

# -- composite provider: only categories some member provider knows are cached ---------------------------------------
shape("CompositeActiveTagValueProvider", data="dict", value_providers="seq:any")
oracle("used_value", ["val"], "val")
contract("abs:ActiveTagValueProvider.use_value", trusted=True, pos_params=["value"], pure=True,
         ensures={"value": "result == used_value(value) and implies(value is Unknown, result is Unknown)"},
         doc="use_value(value): calls a lazy value function, keeps the Unknown placeholder (proved bounded; fix 0460e44)")
oracle("lazy_value", ["val"], "val")
contract("user:lazy_value", trusted=True, pos_params=[], pure=True, doc="a value function supplied by the user (A-user)")
contract(T + "ActiveTagValueProvider.use_value", props=["C19"], params={"value": "any"}, result="any",
         callsites={"value_func": "user:lazy_value"},
         ensures={"the-unknown-placeholder-is-kept-not-called": "implies(value is Unknown, result is Unknown)",
                  "a-plain-value-is-returned-as-it-is": "implies(not uf_bool('is_callable', value), result == value)"},
         doc="Unknown is a class, hence callable: calling it would turn the 'category unknown' marker into an instance that no "
             "caller recognises (fix 0460e44)")
shape("ActiveTagValueProvider", data="dict")
contract(T + "ActiveTagValueProvider.get", props=["C19"], params={"self": "ref:ActiveTagValueProvider", "category": "any", "default": "any"},
         self_classes=["ActiveTagValueProvider"], result="any",
         callsites={"self.use_value": "abs:ActiveTagValueProvider.use_value"},
         ensures={"a-known-category-yields-its-own-value-also-a-falsy-one-never-the-default":
                  "implies(has_key(self.data, category), result == used_value(dict_value(self.data, category)))",
                  "only-an-unknown-category-yields-the-default":
                  "implies(not has_key(self.data, category), result == used_value(default))"},
         doc="'' / 0 / False are legitimate current values of a category (C19: the category is known, so its tags decide)")
PROVS = "as_list(self.value_providers, 'any')"
KNOWS = "(provider_value(%s[k], category) is not Unknown)" % PROVS
contract(T + "CompositeActiveTagValueProvider.get", props=P,
         params={"self": "ref:CompositeActiveTagValueProvider", "category": "str", "default": "any"},
         self_classes=["CompositeActiveTagValueProvider"],
         callsites={"value_provider.get": "abs:provider.get", "self.use_value": "abs:ActiveTagValueProvider.use_value"},
         modifies=["dict(self.data)"],
         requires={"cache-holds-no-placeholder": "forall_val(lambda c: implies(has_key(self.data, c), dict_value(self.data, c) is not Unknown))"},
         loops=[Loop(invariant={"no-earlier-provider-knows-the-category":
                                "forall(lambda k: implies(0 <= k < _i, not %s))" % KNOWS,
                                "cache-untouched-so-far": "forall_val(lambda c: has_key(self.data, c) == old(has_key(self.data, c)) and "
                                                          "implies(has_key(self.data, c), dict_value(self.data, c) == old(dict_value(self.data, c))))",
                                "still-unknown": "value is Unknown",
                                "same": "_seq is self.value_providers"})],
         ensures={
             "a-category-is-cached-only-if-it-was-or-some-provider-knows-it":
                 "has_key(self.data, category) == (old(has_key(self.data, category)) or "
                 "exists(lambda k: 0 <= k < len(%s) and %s))" % (PROVS, KNOWS),
             "other-categories-untouched":
                 "forall_val(lambda c: implies(c != category, has_key(self.data, c) == old(has_key(self.data, c)) and "
                 "implies(has_key(self.data, c), dict_value(self.data, c) == old(dict_value(self.data, c)))))",
             "the-cache-never-holds-the-placeholder-or-a-default":
                 "forall_val(lambda c: implies(has_key(self.data, c), dict_value(self.data, c) is not Unknown))",
             "unknown-everywhere-gives-the-default":
                 "implies(not old(has_key(self.data, category)) and not exists(lambda k: 0 <= k < len(%s) and %s), "
                 "result == used_value(default))" % (PROVS, KNOWS),
         })

prop("C19", level="proof",
     bounded=[],
     explanation="per-category logic of is_tag_group_enabled proved against the documented formula for tag groups "
                 "of any size; should_exclude_with / composite / should_run_with proved over it",
     notes=["tag schema regex and grouping generator are outside the subset: bounded stand-in only"])

# -- the matcher keeps the provider object it is given (providers are filled / switched after construction) ----------
contract("abs:ActiveTagMatcher.make_tag_pattern", trusted=True, pos_params=["tag_prefixes", "value_separator"],
         defaults={"value_separator": None}, pure=True, result="any", doc="compiles the tag-schema regex (bounded: b_c19)")
contract(T + "ActiveTagMatcher.__init__", props=P,
         params={"self": "ref:ActiveTagMatcher", "value_provider": "any", "tag_prefixes": "any", "value_separator": "any",
                 "ignore_unknown_categories": "opt:bool"},
         self_classes=["ActiveTagMatcher"],
         callsites={"self.make_tag_pattern": "abs:ActiveTagMatcher.make_tag_pattern",
                    "super(ActiveTagMatcher, self).__init__": "abs:object.__init__"},
         modifies=["self.value_provider", "self.tag_pattern", "self.tag_prefixes", "self.ignore_unknown_categories",
                   "self.exclude_reason"],
         ensures={"the-given-provider-object-is-kept-even-while-it-is-still-empty":
                  "implies(not is_none(value_provider), self.value_provider is value_provider)",
                  "no-provider-means-an-empty-one": "implies(is_none(value_provider), not is_none(self.value_provider))",
                  "no-exclude-reason-yet": "is_none(self.exclude_reason)"},
         doc="a provider that is empty at construction time (a dict filled in before_all, a lazy provider) is falsy: it must "
             "still be the object consulted later")
contract("abs:object.__init__", trusted=True, pos_params=[], pure=True, doc="TagMatcher.__init__ / object.__init__: no state")
