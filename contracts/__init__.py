# -*- coding: utf-8 -*-
"""Sidecar contracts for behave (never imported by behave; behave is never
imported here).  `load_all()` fills pyvc.contracts.REG; PROPERTIES configures
the per-property check (which functions have a bounded stand-in, level, notes)."""
import importlib

MODULES = ["shapes", "catalogue", "c03_status", "c19_active_tags", "c17_rerun", "c10_location", "c11_matching", "c18_capture", "runs_common", "run_step", "run_scenario", "run_containers", "c08_tagexpr", "c14_summary", "c09_selection", "c13_context", "c02_steps", "c11_loading", "c06_outline", "c16_junit", "c20_config", "c15_formatters", "c05_parser", "bounded_only"]
_loaded = []

PROPERTIES = {}


def prop(pid, **kw):
    PROPERTIES[pid] = kw


def load_all():
    if _loaded:
        return
    _loaded.append(1)
    for m in MODULES:
        importlib.import_module("contracts." + m)
    from pyvc import contracts as _C
    if _C.SHAPE_CONFLICTS:
        raise RuntimeError("conflicting shape declarations (class, field, first, second): %r" % (_C.SHAPE_CONFLICTS,))
