# -*- coding: utf-8 -*-
"""C02 -- the step sequence of a scenario: inherited background steps first, each scenario with its own copies.

The run methods iterate the abstract sequence all_steps_of(scenario) (catalogue.py).  Here the real builders of that
sequence are under contract: copy/reset helpers, Scenario.background_steps (lazy, per-scenario copies),
Scenario.iter_steps / Background.iter_steps (order), Background.inherited_steps.
"""
from pyvc.contracts import contract, oracle, Loop, shape, trusted_note, global_const, macro
from contracts import prop

M = "behave.model:"
P = ["C02"]

oracle("copy_of", ["ref"], "val")       # the step object a copied step was made from
shape("Scenario", _background_steps="opt:seq:ref:Step", steps="seq:ref:Step", background="opt:ref:Background",
      _use_background="bool")
contract(M + "Scenario.use_background", inline=True)
shape("Background", _inherited_steps="opt:seq:ref:Step", steps="seq:ref:Step", inherited_background="opt:ref:Background",
      _use_inheritance="bool")
contract("lib:copy.copy", trusted=True, pos_params=["x"], fresh_result="Step",
         ensures={"a-copy-of-x": "copy_of(result) is x and result.name == as_ref(x, 'Step').name and "
                                 "result.keyword == as_ref(x, 'Step').keyword and result.step_type == as_ref(x, 'Step').step_type"},
         doc="copy.copy(step): a new Step object with the same attribute values (A-lib)")
contract(M + "copy_steps", props=P, params={"steps": "seq:ref:Step"}, result="seq:ref:Step",
         ensures={"a-new-list-of-new-step-objects-in-the-same-order":
                  "is_fresh(result) and len(result) == len(steps) and "
                  "forall(lambda k: implies(0 <= k < len(steps), is_fresh(result[k]) and copy_of(result[k]) is steps[k]))",
                  "the-copies-are-distinct-objects":
                  "forall(lambda j, k: implies(0 <= j < k and k < len(result), result[j] is not result[k]))"})
contract(M + "reset_steps", props=P, params={"steps": "seq:ref:Step"}, result="seq:ref:Step",
         requires={"distinct-step-objects": "forall(lambda j, k: implies(0 <= j < k and k < len(steps), steps[j] is not steps[k]))"},
         modifies=["each(steps).status", "each(steps).hook_failed", "each(steps).duration", "each(steps).exception",
                   "each(steps).exc_traceback", "each(steps).error_message", "each(steps).captured"],
         loops=[Loop(invariant={"reset-so-far": "forall(lambda k: implies(0 <= k < _i, _at(k).status == Status.untested))",
                                "same": "_seq is steps",
                                "only-these-steps-touched": " and ".join(
                                    "unchanged_outside('%s', steps)" % f_ for f_ in
                                    ("status", "hook_failed", "duration", "exception", "exc_traceback", "error_message", "captured"))})],
         ensures={"same-list": "result is steps",
                  "every-step-untested": "forall(lambda k: implies(0 <= k < len(steps), steps[k].status == Status.untested))"})
FRESH_COPIES = ("is_fresh(result) and len(result) == len(%(src)s) and forall(lambda k: implies(0 <= k < len(%(src)s), "
                "is_fresh(result[k]) and copy_of(result[k]) is %(src)s[k] and result[k].status == Status.untested))")
STEP_RESET_FIELDS = ["*.status", "*.hook_failed", "*.duration", "*.exception", "*.exc_traceback", "*.error_message", "*.captured"]
contract(M + "copy_and_reset_steps", props=P, params={"steps": "seq:ref:Step"}, result="seq:ref:Step",
         modifies=STEP_RESET_FIELDS,
         ensures={"new-untested-copies-in-the-same-order": FRESH_COPIES % {"src": "steps"},
                  "no-existing-step-is-touched":
                      "forall(lambda r: implies(existed(r), field_of(r, 'status', 'Step') == old(field_of(r, 'status', 'Step'))))",
                  "only-the-new-copies-are-reset": " and ".join(
                      "unchanged_outside('%s', result)" % f_ for f_ in
                      ("status", "hook_failed", "duration", "exception", "exc_traceback", "error_message", "captured"))})

# -- Scenario.reset: every step the scenario runs starts from a clean state, background copies included ------------------
contract("abs:Scenario.all_steps.reset", trusted=True, params={"self": "ref:Scenario"}, pos_params=["self"], pure=True, result="seq:ref:Step",
         ensures={"value": "result is all_steps_of(self)"}, doc="call-site view of Scenario.all_steps (background copies, then own steps)")
contract("abs:Step.reset.view", trusted=True, params={"self": "ref:Step"}, pos_params=["self"],
         modifies=["self.status", "self.hook_failed", "self.duration", "self.exception", "self.exc_traceback", "self.error_message", "self.captured"],
         ensures={"clean": "self.status == Status.untested and self.hook_failed == False"},
         doc="call-site view of Step.reset (proved: catalogue)")
contract(M + "Scenario.reset", props=["C03", "C02"], params={"self": "ref:Scenario"}, self_classes=["Scenario"],
         callsites={"self.all_steps": "abs:Scenario.all_steps.reset", "step.reset": "abs:Step.reset.view"},
         requires={"distinct-step-objects": "forall(lambda j, k: implies(0 <= j < k and k < len(as_list(all_steps_of(self), 'ref:Step')), "
                                            "as_list(all_steps_of(self), 'ref:Step')[j] is not as_list(all_steps_of(self), 'ref:Step')[k]))"},
         modifies=["self._cached_status", "self.should_skip", "self.skip_reason", "self.hook_failed", "self._row", "self.was_dry_run",
                   "self.exception", "self.exc_traceback", "self.error_message", "self.captured",
                   "*.status", "*.duration", "*.hook_failed", "*.exception", "*.exc_traceback", "*.error_message", "*.captured"],
         loops=[Loop(invariant={"steps-so-far-are-clean": "forall(lambda k: implies(0 <= k < _i, _seq[k].status == Status.untested and "
                                                          "_seq[k].hook_failed == False))",
                                "own-state": "self.hook_failed == False and self._cached_status == Status.untested and self.should_skip == False",
                                "same": "_seq is all_steps_of(self)"})],
         ensures={"every-step-of-the-scenario-background-copies-included-is-untested-again":
                  "forall(lambda k: implies(0 <= k < len(as_list(all_steps_of(self), 'ref:Step')), "
                  "as_list(all_steps_of(self), 'ref:Step')[k].status == Status.untested and "
                  "as_list(all_steps_of(self), 'ref:Step')[k].hook_failed == False))",
                  "the-scenario-itself-is-new-born": "self.hook_failed == False and self._cached_status == Status.untested and "
                                                     "self.should_skip == False and is_none(self._row)"},
         doc="C03: after reset_model() nothing of an earlier run is visible; the scenario's own copies of the background steps "
             "are part of all_steps")

# -- per-scenario copies of the inherited background steps (lazy) ------------------------------------------------
BG = "as_ref(self.background, 'Background')"
INH = "as_list(%s._inherited_steps, 'ref:Step')" % BG
OWNB = "as_list(%s.steps, 'ref:Step')" % BG
COPIES_OF_BG = ("is_fresh(result) and len(result) == len(%(i)s) + len(%(o)s) and "
                "forall(lambda k: implies(0 <= k < len(%(i)s), is_fresh(result[k]) and copy_of(result[k]) is %(i)s[k] "
                "and result[k].status == Status.untested)) and "
                "forall(lambda k: implies(0 <= k < len(%(o)s), is_fresh(result[len(%(i)s) + k]) and "
                "copy_of(result[len(%(i)s) + k]) is %(o)s[k] and result[len(%(i)s) + k].status == Status.untested))"
                % {"i": INH, "o": OWNB})
contract(M + "Scenario.background_steps", props=P + ["C03", "C01"], params={"self": "ref:Scenario"}, self_classes=["Scenario"],
         result="seq:ref:Step", modifies=STEP_RESET_FIELDS + ["self._background_steps", "*._inherited_steps"],
         ensures={
             "computed-once-then-cached": "implies(not is_none(old(self._background_steps)), result is old(self._background_steps)) and "
                                          "self._background_steps is result",
             "own-untested-copies-of-all-background-steps-in-order":
                 "implies(is_none(old(self._background_steps)) and truthy(self.background) and self._use_background, "
                 + COPIES_OF_BG + ")",
             "no-background-no-steps":
                 "implies(is_none(old(self._background_steps)) and not (truthy(self.background) and self._use_background), len(result) == 0)",
             "no-existing-step-is-touched":
                 "forall(lambda r: implies(existed(r), field_of(r, 'status', 'Step') == old(field_of(r, 'status', 'Step'))))",
         })

IB = "as_ref(self.inherited_background, 'Background')"
contract(M + "Background.inherited_steps", props=P, params={"self": "ref:Background"}, self_classes=["Background"],
         result="seq:ref:Step", modifies=STEP_RESET_FIELDS + ["self._inherited_steps"],
         ensures={
             "computed-once-then-cached": "implies(not is_none(old(self._inherited_steps)), result is old(self._inherited_steps)) and "
                                          "self._inherited_steps is result",
             "untested-copies-of-the-outer-background's-own-steps-in-order":
                 "implies(is_none(old(self._inherited_steps)) and truthy(self.inherited_background) and self._use_inheritance, "
                 + (FRESH_COPIES % {"src": "%s.steps" % IB}) + ")",
             "nothing-inherited": "implies(is_none(old(self._inherited_steps)) and not (truthy(self.inherited_background) and "
                                  "self._use_inheritance), len(result) == 0)",
             "no-existing-step-is-touched": "forall(lambda r: implies(existed(r), field_of(r, 'status', 'Step') == old(field_of(r, 'status', 'Step'))))",
         })
contract(M + "Background.iter_steps", props=P, params={"self": "ref:Background"}, self_classes=["Background"],
         result="seq:ref:Step", modifies=STEP_RESET_FIELDS + ["self._inherited_steps"],
         ensures={"inherited-steps-first-then-own-steps":
                  "len(result) == len(self._inherited_steps) + len(self.steps) and "
                  "forall(lambda k: implies(0 <= k < len(self._inherited_steps), result[k] is self._inherited_steps[k])) and "
                  "forall(lambda k: implies(0 <= k < len(self.steps), result[len(self._inherited_steps) + k] is self.steps[k]))",
                  "inherited-list-initialised": "not is_none(self._inherited_steps)",
                  "no-existing-step-is-touched": "forall(lambda r: implies(existed(r), field_of(r, 'status', 'Step') == old(field_of(r, 'status', 'Step'))))"})
contract(M + "Scenario.iter_steps", props=P, params={"self": "ref:Scenario"}, self_classes=["Scenario"],
         result="seq:ref:Step", modifies=STEP_RESET_FIELDS + ["self._background_steps", "*._inherited_steps"],
         ensures={"background-steps-first-then-own-steps":
                  "implies(not is_none(self.background), not is_none(self._background_steps) and "
                  "len(result) == len(self._background_steps) + len(self.steps) and "
                  "forall(lambda k: implies(0 <= k < len(self._background_steps), result[k] is self._background_steps[k])) and "
                  "forall(lambda k: implies(0 <= k < len(self.steps), result[len(self._background_steps) + k] is self.steps[k])))",
                  "own-steps-only-without-background":
                  "implies(is_none(self.background), len(result) == len(self.steps) and "
                  "forall(lambda k: implies(0 <= k < len(self.steps), result[k] is self.steps[k])))",
                  "no-existing-step-is-touched": "forall(lambda r: implies(existed(r), field_of(r, 'status', 'Step') == old(field_of(r, 'status', 'Step'))))"})

ALLB_ENS = {"inherited-steps-first-then-own-steps":
            "len(result) == len(self._inherited_steps) + len(self.steps) and "
            "forall(lambda k: implies(0 <= k < len(self._inherited_steps), result[k] is self._inherited_steps[k])) and "
            "forall(lambda k: implies(0 <= k < len(self.steps), result[len(self._inherited_steps) + k] is self.steps[k]))",
            "inherited-list-initialised": "not is_none(self._inherited_steps)",
            "no-existing-step-is-touched": "forall(lambda r: implies(existed(r), field_of(r, 'status', 'Step') == old(field_of(r, 'status', 'Step'))))"}
contract(M + "Background.all_steps", props=P, params={"self": "ref:Background"}, self_classes=["Background"],
         result="seq:ref:Step", modifies=STEP_RESET_FIELDS + ["self._inherited_steps"], ensures=ALLB_ENS)

# -- skipping a scenario: every step that was not executed (background steps included) is left skipped ----------------
ALLS = "as_list(all_steps_of(self), 'ref:Step')"
contract(M + "Scenario.skip", props=P + ["C09", "C01", "C10", "C03"], params={"self": "ref:Scenario", "reason": "opt:str", "require_not_executed": "bool"},
         self_classes=["Scenario"], assert_raises=True, allow_raises=["AssertionError"],
         callsites={"self.all_steps": "abs:Scenario.all_steps"},
         modifies=["self._cached_status", "self.should_skip", "self.skip_reason", "*.status",
                   "*._background_steps", "*._inherited_steps", "*.hook_failed", "*.duration", "*.exception", "*.exc_traceback",
                   "*.error_message", "*.captured"],
         assume={"steps-of-a-scenario-are-distinct-objects":
                 "forall(lambda k: implies(0 <= k < len(%s), step_rank(%s[k]) == k and typeof_is(%s[k], 'Step')))" % (ALLS, ALLS, ALLS),
                 "the-step-list-is-part-of-the-model-at-entry": "preexisting(all_steps_of(self))"},
         loops=[Loop(invariant={
             "not-executed-steps-so-far-are-skipped":
                 "forall(lambda k: implies(0 <= k < _i, %(a)s[k].status == (Status.skipped if old(%(a)s[k].status) in "
                 "(Status.untested, Status.skipped) else old(%(a)s[k].status))))" % {"a": ALLS},
             "later-steps-untouched": "forall(lambda k: implies(_i <= k < len(%(a)s), %(a)s[k].status == old(%(a)s[k].status)))" % {"a": ALLS},
             "same": "_seq is all_steps_of(self)"})],
         ensures={"marked": "self.should_skip == True",
                  "every-not-executed-step-including-background-steps-is-skipped":
                      "forall(lambda k: implies(0 <= k < len(%s), %s[k].status == (Status.skipped if old(%s[k].status) in "
                      "(Status.untested, Status.skipped) else old(%s[k].status))))" % (ALLS, ALLS, ALLS, ALLS)})
