# -*- coding: utf-8 -*-
"""C16 -- JUnit report: counters match the test-case entries (JUnitReporter._process_scenario and the walk).

ElementTree elements are abstracted to objects with a tag and three child counters (how many <error>, <failure>,
<skipped> children were appended).  Well-formedness of the serialised text (escaping, CDATA, invalid characters) is
string surgery and stays with the bounded stand-in (independent XML parser over hostile alphabets).
"""
from pyvc.contracts import contract, oracle, Loop, shape, macro, global_const, virtual_class
from contracts import prop

J = "behave.reporter.junit:"
P = ["C16"]

virtual_class("XmlElement", bases=[], members=[])
shape("XmlElement", tag="str", n_error="int", n_failure="int", n_skipped="int", text="any")
shape("FeatureReportData", feature="ref:Feature", filename="any", classname="any", testcases="seq:ref:XmlElement",
      counts_tests="int", counts_errors="int", counts_failed="int", counts_skipped="int")
shape("JUnitReporter", config="ref:Configuration", show_skipped_always="bool", show_scenarios="bool", show_tags="bool",
      show_multiline="bool", show_timings="bool", show_timestamp="bool", show_hostname="bool", _summary_collector="any")
shape("Configuration", show_skipped="bool")
shape("Captured", stdout="any", stderr="any")
shape("Scenario", captured="ref:Captured")
contract("new:XmlElement", trusted=True, pos_params=["tag"], fresh_result="XmlElement",
         ensures={"empty-element": "result.tag == tag and result.n_error == 0 and result.n_failure == 0 and result.n_skipped == 0"},
         doc="ElementTree.Element(tag): a new element without children (A-lib)")
contract("abs:XmlElement.append", trusted=True, params={"self": "ref:XmlElement"}, pos_params=["self", "child"],
         modifies=["self.n_error", "self.n_failure", "self.n_skipped"],
         ensures={"child-counted-by-its-tag":
                  "self.n_error == old(self.n_error) + (1 if as_ref(child, 'XmlElement').tag == 'error' else 0) and "
                  "self.n_failure == old(self.n_failure) + (1 if as_ref(child, 'XmlElement').tag == 'failure' else 0) and "
                  "self.n_skipped == old(self.n_skipped) + (1 if as_ref(child, 'XmlElement').tag == 'skipped' else 0)"},
         doc="Element.append(child) (A-lib)")
contract("abs:XmlElement.set", trusted=True, params={"self": "ref:XmlElement"}, pos_params=["self", "key", "value"], pure=True,
         doc="Element.set(attribute, value): attributes are not part of the counters (A-lib)")
contract("abs:CDATA", trusted=True, pos_params=["text"], defaults={"text": None}, fresh_result="XmlElement",
         ensures={"cdata": "result.tag == '![CDATA['"}, doc="CDATA(text) section element (escaping: bounded)")
contract("abs:make_problem_element", trusted=True, pos_params=["self", "scenario", "step"], fresh_result="XmlElement",
         ensures={"tag": "result.tag == problem_tag(self)"}, doc="placeholder, see the two concrete call-site contracts")
for _tag, _name in (("error", "_make_error_element_for"), ("failure", "_make_failure_element_for")):
    contract("abs:JUnitReporter.%s" % _name, trusted=False, params={"self": "ref:JUnitReporter"},
             pos_params=["self", "scenario", "step"], fresh_result="XmlElement",
             ensures={"element-of-that-kind": "result.tag == '%s' and result.n_error == 0 and result.n_failure == 0 and result.n_skipped == 0" % _tag},
             doc="<%s> element naming the responsible step or hook (text content: bounded)" % _tag)
oracle("problem_tag", ["val"], "val:str")
contract("abs:JUnitReporter.describe_scenario", trusted=True, params={"self": "ref:JUnitReporter"},
         pos_params=["self", "scenario"], pure=True, result="str", doc="text rendering of the scenario (bounded)")
contract("abs:JUnitReporter.make_feature_filename", trusted=True, params={"self": "ref:JUnitReporter"},
         pos_params=["self", "feature"], pure=True, result="str")
contract("lib:round", trusted=True, pos_params=["x", "n"], pure=True, result="any")
global_const("round", ("contract", "lib:round"))
contract(J + "JUnitReporter.show_skipped", inline=True)

# -- the entry of a failed / errored scenario names the responsible step whenever one was found -------------------------
from pyvc.contracts import ghost as _ghost
_ghost("jd_step", "val")        # the step the last problem description was written for
_ghost("jd_n", "int")           # number of step descriptions written
contract("abs:JUnitReporter.describe_step", trusted=True, params={"self": "ref:JUnitReporter"}, pos_params=["self", "step"],
         modifies=["G_jd_step", "G_jd_n"], result="str",
         ensures={"recorded": "G_jd_step is step and G_jd_n == old(G_jd_n) + 1"},
         doc="describe_step(step): the step's keyword, name, table/text (rendering: bounded); ghost: which step was described")
contract("lib:traceback.format_tb", trusted=True, pos_params=["tb"], fresh_result="list:str", doc="traceback.format_tb (A-lib)")
contract("abs:_text", trusted=True, pos_params=["x"], pure=True, result="str", doc="six.text_type(x)")
contract(J + "JUnitReporter._make_problem_description_for", props=P,
         params={"self": "ref:JUnitReporter", "element_name": "str", "scenario": "ref:Scenario", "step": "opt:ref:Step"},
         self_classes=["JUnitReporter"], result="ref:XmlElement",
         callsites={"ElementTree.Element": "new:XmlElement", "xml_element.set": "abs:XmlElement.set", "xml_element.append": "abs:XmlElement.append",
                    "CDATA": "abs:CDATA", "self.describe_step": "abs:JUnitReporter.describe_step", "_text": "abs:_text",
                    "traceback.format_tb": "lib:traceback.format_tb"},
         modifies=["G_jd_step", "G_jd_n"],
         ensures={"an-element-of-the-requested-kind": "is_fresh(result) and result.tag == element_name",
                  "a-found-step-is-always-the-one-described-whether-or-not-it-carries-an-exception-object":
                      "implies(not is_none(step), G_jd_n == old(G_jd_n) + 1 and G_jd_step is step)",
                  "without-a-step-no-step-is-described": "implies(is_none(step), G_jd_n == old(G_jd_n))"},
         doc="C16: 'a failed or errored scenario carries an entry naming the responsible step or hook'; the hook/unknown "
             "branch is only for scenarios in which no step has a failing status")

# -- the first step with one of the given statuses -------------------------------------------------------------
contract(J + "JUnitReporter.select_step_with_any_status", props=P,
         params={"desired_statuses": "tuple:Status", "steps": "seq:ref:Step"}, result="opt:ref:Step", pure=True,
         loops=[Loop(invariant={"no-earlier-step-has-one-of-the-statuses":
                                "forall(lambda k: implies(0 <= k < _i, not (_at(k).status in desired_statuses)))",
                                "same": "_seq is steps"})],
         ensures={"the-first-step-with-one-of-the-statuses-or-none":
                  "(is_none(result) and forall(lambda k: implies(0 <= k < len(steps), not (steps[k].status in desired_statuses)))) or "
                  "exists(lambda k: 0 <= k < len(steps) and result is steps[k] and steps[k].status in desired_statuses and "
                  "forall(lambda j: implies(0 <= j < k, not (steps[j].status in desired_statuses))))"})

# -- the walk: counters == entries, with ghost totals of the entries of all collected test cases ------------------
from pyvc.contracts import ghost as _ghost
_ghost("tc_n", "int")        # test cases collected so far (all reports)
_ghost("tc_err", "int")      # <error> children of the collected test cases (at the time they were collected)
_ghost("tc_fail", "int")
_ghost("tc_skip", "int")
contract("abs:collect_testcase", trusted=True, pos_params=["self", "case"],
         modifies=["list(self)", "G_tc_n", "G_tc_err", "G_tc_fail", "G_tc_skip"],
         ensures={"appended": "len(self) == old(len(self)) + 1 and self[len(self) - 1] is case and "
                              "forall(lambda k: implies(0 <= k < old(len(self)), self[k] is old(self[k])))",
                  "entries-census": "G_tc_n == old(G_tc_n) + 1 and G_tc_err == old(G_tc_err) + as_ref(case, 'XmlElement').n_error and "
                                    "G_tc_fail == old(G_tc_fail) + as_ref(case, 'XmlElement').n_failure and "
                                    "G_tc_skip == old(G_tc_skip) + as_ref(case, 'XmlElement').n_skipped"},
         doc="list.append on report.testcases plus the ghost census of the collected entries (ghost statement)")
GHOSTS = ["G_tc_n", "G_tc_err", "G_tc_fail", "G_tc_skip"]
COUNTERS_MATCH = ("report.counts_tests - %(o)s(report.counts_tests) == G_tc_n - %(o)s(G_tc_n) and "
                  "report.counts_errors - %(o)s(report.counts_errors) == G_tc_err - %(o)s(G_tc_err) and "
                  "report.counts_failed - %(o)s(report.counts_failed) == G_tc_fail - %(o)s(G_tc_fail) and "
                  "report.counts_skipped - %(o)s(report.counts_skipped) == G_tc_skip - %(o)s(G_tc_skip) and "
                  "len(report.testcases) - %(o)s(len(report.testcases)) == G_tc_n - %(o)s(G_tc_n) and G_tc_n >= %(o)s(G_tc_n)")

# -- one scenario -> at most one <testcase>, counters move with its children ---------------------------------------
S_ = "child_status(scenario)"
SHOWN = "(%s != Status.skipped or self.config.show_skipped or self.show_skipped_always)" % S_
SHOWSK = "(self.config.show_skipped or self.show_skipped_always)"
IS_ERR = "(%s in (Status.error, Status.hook_error, Status.cleanup_error, Status.undefined, Status.pending))" % S_
IS_FAIL = "(%s == Status.failed)" % S_
SKIPPY = "(not %s and not %s and %s in (Status.skipped, Status.untested) and %s)" % (IS_ERR, IS_FAIL, S_, SHOWSK)
STEPS = "as_list(all_steps_of(scenario), 'ref:Step')"
HAS_UNDEF = "exists(lambda k: 0 <= k < len(%s) and %s[k].status in (Status.pending, Status.undefined))" % (STEPS, STEPS)
D_ERR = "(1 if %s else 0)" % IS_ERR
D_FAIL = "((1 if (not %s and %s) else 0) + (1 if (%s and %s) else 0))" % (IS_ERR, IS_FAIL, SKIPPY, HAS_UNDEF)
D_SKIP = "(1 if %s else 0)" % SKIPPY
LAST = "report.testcases[len(report.testcases) - 1]"
contract("abs:Scenario.all_steps", trusted=True, params={"self": "ref:Scenario"}, pure=True, result="seq:ref:Step",
         ensures={"value": "result is all_steps_of(self)"}, doc="scenario.all_steps (background steps then own steps: C02)")
contract(J + "JUnitReporter._process_scenario", props=P,
         params={"self": "ref:JUnitReporter", "scenario": "ref:Scenario", "report": "ref:FeatureReportData"},
         self_classes=["JUnitReporter"],
         requires={"a-plain-scenario": "exact_type(scenario, 'Scenario')"},
         callsites={"ElementTree.Element": "new:XmlElement", "CDATA": "abs:CDATA", "report.testcases.append": "abs:collect_testcase"},
         modifies=GHOSTS + ["report.counts_tests", "report.counts_errors", "report.counts_failed", "report.counts_skipped",
                   "list(report.testcases)", "*._cached_status", "*._background_steps", "*._inherited_steps"],
         ensures={
             "tests-counter-moves-with-the-testcase-list":
                 "report.counts_tests == old(report.counts_tests) + (1 if %s else 0) and "
                 "len(report.testcases) == old(len(report.testcases)) + (1 if %s else 0)" % (SHOWN, SHOWN),
             "earlier-testcases-kept": "forall(lambda k: implies(0 <= k < old(len(report.testcases)), report.testcases[k] is old(report.testcases[k])))",
             "errors-counter": "report.counts_errors == old(report.counts_errors) + %s" % D_ERR,
             "failures-counter":
                 "implies(not %s and %s, report.counts_failed == old(report.counts_failed) + 1) and "
                 "implies(%s, old(report.counts_failed) <= report.counts_failed <= old(report.counts_failed) + 1) and "
                 "implies(not (not %s and %s) and not %s, report.counts_failed == old(report.counts_failed))"
                 % (IS_ERR, IS_FAIL, SKIPPY, IS_ERR, IS_FAIL, SKIPPY),
             "skipped-counter": "report.counts_skipped == old(report.counts_skipped) + %s" % D_SKIP,
             "a-hidden-scenario-moves-no-counter":
                 "implies(not %s, report.counts_errors == old(report.counts_errors) and report.counts_failed == old(report.counts_failed) "
                 "and report.counts_skipped == old(report.counts_skipped))" % SHOWN,
             "the-new-testcase-carries-exactly-the-counted-entries":
                 "implies(%s, is_fresh(%s) and %s.tag == 'testcase' and %s.n_error == report.counts_errors - old(report.counts_errors) and "
                 "%s.n_failure == report.counts_failed - old(report.counts_failed) and "
                 "%s.n_skipped == report.counts_skipped - old(report.counts_skipped))" % (SHOWN, LAST, LAST, LAST, LAST, LAST),
             "counters-grow-by-exactly-the-entries-of-the-new-testcase": COUNTERS_MATCH % {"o": "old"},
             "a-failed-or-errored-scenario-always-carries-a-failure-or-error-entry":
                 "implies(%s or %s, %s.n_error + %s.n_failure >= 1)" % (IS_ERR, IS_FAIL, LAST, LAST),
         })

JW_MOD = GHOSTS + ["report.counts_tests", "report.counts_errors", "report.counts_failed", "report.counts_skipped",
          "list(report.testcases)", "*._cached_status", "*._background_steps", "*._inherited_steps",
          "*._scenarios", "*.index", "*.id", "*.modified"]
JW_ENS = {
    "counters-grow-by-exactly-the-entries-of-the-new-testcases": COUNTERS_MATCH % {"o": "old"},
    "earlier-testcases-kept": "forall(lambda k: implies(0 <= k < old(len(report.testcases)), report.testcases[k] is old(report.testcases[k])))",
}
contract(J + "JUnitReporter._process_scenario_outline", props=P,
         params={"self": "ref:JUnitReporter", "scenario_outline": "ref:ScenarioOutline", "report": "ref:FeatureReportData"},
         self_classes=["JUnitReporter"], modifies=JW_MOD,
         assume={"rows-are-plain-scenarios (built by make_scenario_for: C06)":
                 "forall(lambda k: implies(0 <= k < len(as_list(rows_of(scenario_outline), 'ref:Scenario')), "
                 "exact_type(as_list(rows_of(scenario_outline), 'ref:Scenario')[k], 'Scenario')))",
                 "row-list-is-not-the-testcase-list": "rows_of(scenario_outline) is not report.testcases"},
         loops=[Loop(invariant={
             "counters-grow-by-exactly-the-entries-of-the-new-testcases": COUNTERS_MATCH % {"o": "pre"},
             "earlier-testcases-kept": "forall(lambda k: implies(0 <= k < pre(len(report.testcases)), report.testcases[k] is pre(report.testcases[k])))",
             "same": "_seq is rows_of(scenario_outline)"}, modifies=JW_MOD)],
         ensures=JW_ENS)
contract("abs:ScenarioOutline.__iter__", trusted=True, params={"self": "ref:ScenarioOutline"}, pos_params=["self"],
         modifies=["*._scenarios", "*.index", "*.id", "*.modified"], result="seq:ref:Scenario",
         ensures={"value": "result is rows_of(self)"}, doc="iter(outline) == iter(outline.scenarios) (C06)")

contract(J + "JUnitReporter._process_rule", props=P,
         params={"self": "ref:JUnitReporter", "rule": "ref:Rule", "report": "ref:FeatureReportData"},
         self_classes=["JUnitReporter"], modifies=JW_MOD, ensures=JW_ENS)
contract(J + "JUnitReporter._process_run_items_for", props=P,
         params={"self": "ref:JUnitReporter", "parent": "ref:ScenarioContainer", "report": "ref:FeatureReportData"},
         self_classes=["JUnitReporter"], modifies=JW_MOD,
         assume={"model-lists-are-not-the-testcase-list": "parent.run_items is not report.testcases"},
         loops=[Loop(invariant={
             "counters-grow-by-exactly-the-entries-of-the-new-testcases": COUNTERS_MATCH % {"o": "pre"},
             "earlier-testcases-kept": "forall(lambda k: implies(0 <= k < pre(len(report.testcases)), report.testcases[k] is pre(report.testcases[k])))",
             "same": "_seq is parent.run_items"}, modifies=JW_MOD)],
         ensures=JW_ENS,
         doc="every run item goes to the function for its kind; counters and collected entries stay in step")

prop("C16", level="other", bounded=[],
     explanation="proved: _process_scenario appends at most one <testcase> (exactly when the scenario is shown), counts it in "
                 "`tests`, and moves errors/failures/skipped by exactly the <error>/<failure>/<skipped> children it gave that "
                 "test case (error-class status -> one error, failed -> one failure, shown skipped/untested -> one skipped plus at "
                 "most one failure for an undefined/pending step); a failed or errored scenario always carries an entry; hidden "
                 "scenarios move no counter; the walk over rules, outlines (rows) and scenarios keeps counters and collected "
                 "entries in step (ghost census of the collected entries); select_step_with_any_status returns the first step "
                 "with one of the statuses; the problem description is written for the selected step whenever one was found "
                 "(whether or not it carries an exception object) and falls back to the hook/unknown text only without a step. "
                 "Bounded: well-formedness/escaping of the serialised XML, the rendered text, "
                 "JUnitReporter.feature (file writing, suite attributes)",
     technique="contract-based deductive verification (own VC generator over the real ASTs, z3/cvc5) of the counters; bounded "
               "run-time contract stand-in with an independent XML parser for well-formedness",
     notes=["ElementTree elements abstracted to (tag, #error, #failure, #skipped children)",
            "which shown-skipped scenarios get the extra 'undefined step' failure is left open by the P clauses (0 or 1)"])
