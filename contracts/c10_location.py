# -*- coding: utf-8 -*-
"""C10 -- file-location and name selection (DESIGN.md 5.10)."""
from pyvc.contracts import contract, oracle, Loop, shape, trusted_note, macro, global_const, Raises
from contracts import prop

R = "behave.runner_util:"
M = "behave.model:"
P = ["C10"]

shape("FeatureLineDatabase", entity="any", data="dict", _line_numbers="opt:seq:int", _line_entities="opt:seq:any")
shape("FeatureScenarioLocationCollector", feature="opt:ref:Feature", filename="any", use_all_scenarios="bool",
      scenario_lines="set", all_scenarios="any", selected_scenarios="any")
shape("FileLocation", filename="any", line="opt:int")

global_const("bisect", ("contract", "lib:bisect.bisect"))
contract("lib:bisect.bisect", trusted=True, pos_params=["a", "x"], params={"a": "seq:int", "x": "int"},
         pure=True, result="int",
         requires={"sorted": "forall(lambda i: forall(lambda j: implies(0 <= i < j and j < len(a), a[i] <= a[j])))"},
         ensures={"bounds": "0 <= result <= len(a)",
                  "left-part": "forall(lambda k: implies(0 <= k < result, a[k] <= x))",
                  "right-part": "forall(lambda k: implies(result <= k < len(a), a[k] > x))"},
         doc="bisect.bisect == bisect_right of the standard library (C implementation)")
trusted_note("lib:bisect.bisect", "bisect.bisect(a, x) = number of elements <= x of a sorted list (standard library)")

# representation invariant of the line database
K = "as_list(uf_keys(self.data), 'int')"
macro("ldb_valid", ["db"],
      "len(as_list(uf_keys(db.data), 'int')) >= 1 "
      "and forall(lambda i: forall(lambda j: implies(0 <= i < j and j < len(as_list(uf_keys(db.data), 'int')), "
      "as_list(uf_keys(db.data), 'int')[i] < as_list(uf_keys(db.data), 'int')[j]))) "
      "and forall(lambda i: implies(0 <= i < len(as_list(uf_keys(db.data), 'int')), "
      "has_key(db.data, as_list(uf_keys(db.data), 'int')[i]) and not is_none(dict_value(db.data, as_list(uf_keys(db.data), 'int')[i])))) "
      "and forall(lambda x: implies(has_key(db.data, x), "
      "exists(lambda i: 0 <= i < len(as_list(uf_keys(db.data), 'int')) and as_list(uf_keys(db.data), 'int')[i] == x)))")
macro("ldb_cache_ok", ["db"],
      "is_none(db._line_numbers) or (not is_none(db._line_entities) "
      "and len(db._line_numbers) == len(as_list(uf_keys(db.data), 'int')) and len(db._line_entities) == len(db._line_numbers) "
      "and forall(lambda i: implies(0 <= i < len(db._line_numbers), "
      "db._line_numbers[i] == as_list(uf_keys(db.data), 'int')[i] "
      "and db._line_entities[i] == dict_value(db.data, as_list(uf_keys(db.data), 'int')[i]))))")

contract(R + "FeatureLineDatabase.select_run_item_by_line", props=P,
         params={"self": "ref:FeatureLineDatabase", "line": "int"},
         requires={"valid": "ldb_valid(self)", "cache-coherent": "ldb_cache_ok(self)"},
         modifies=["self._line_numbers", "self._line_entities"],
         ensures={
             "exact-line-selects-its-entity":
                 "implies(has_key(self.data, line), result == dict_value(self.data, line))",
             "line-above-first-entity-selects-first":
                 "implies(not has_key(self.data, line) and line < %s[0], result == dict_value(self.data, %s[0]))" % (K, K),
             "other-line-selects-nearest-entity-above":
                 "implies(not has_key(self.data, line) and line > %s[0], forall(lambda p: implies(0 <= p < len(%s) "
                 "and %s[p] < line and implies(p + 1 < len(%s), line < %s[p + 1]), "
                 "result == dict_value(self.data, %s[p]))))" % (K, K, K, K, K, K),
             "cache-stays-coherent": "ldb_cache_ok(self) and ldb_valid(self)",
         })

# entity -> scenarios
oracle("rows_of", ["ref"], "val")      # ScenarioOutline.scenarios
contract("abs:ScenarioOutline.scenarios", trusted=True, params={"self": "ref:ScenarioOutline"},
         result="seq:ref:Scenario", modifies=["*._scenarios", "*.index", "*.id", "*.modified"],
         ensures={"value": "result is rows_of(self)"},
         doc="the row scenarios of an outline, built on first use (builder: C06)")
contract(R + "FeatureLineDatabase.select_scenarios_by_line", props=P,
         params={"self": "ref:FeatureLineDatabase", "line": "int"},
         requires={"valid": "ldb_valid(self)", "cache-coherent": "ldb_cache_ok(self)"},
         callsites={"self.select_run_item_by_line": "abs:select_run_item"},
         modifies=["self._line_numbers", "self._line_entities", "*._scenarios", "*.index", "*.id", "*.modified"],
         result="seq:any",
         ensures={
             "feature-or-rule-selects-all-its-scenarios":
                 "implies(typeof_is(selected_item(self, line), 'Feature') or typeof_is(selected_item(self, line), 'Rule'), "
                 "len(result) == len(as_list(walk_of(as_ref(selected_item(self, line), 'ScenarioContainer')), 'any')) and "
                 "forall(lambda k: implies(0 <= k < len(result), result[k] == "
                 "as_list(walk_of(as_ref(selected_item(self, line), 'ScenarioContainer')), 'any')[k])))",
             "outline-selects-its-rows":
                 "implies(typeof_is(selected_item(self, line), 'ScenarioOutline'), "
                 "len(result) == len(as_list(rows_of(as_ref(selected_item(self, line), 'ScenarioOutline')), 'any')) and "
                 "forall(lambda k: implies(0 <= k < len(result), result[k] == "
                 "as_list(rows_of(as_ref(selected_item(self, line), 'ScenarioOutline')), 'any')[k])))",
             "scenario-or-row-selects-itself":
                 "implies(typeof_is(selected_item(self, line), 'Scenario') and not typeof_is(selected_item(self, line), 'ScenarioOutline'), "
                 "len(result) == 1 and result[0] == selected_item(self, line))",
         })
oracle("selected_item", ["ref", "val"], "val")
contract("abs:select_run_item", trusted=False, pos_params=["self", "line"], result="any",
         modifies=["self._line_numbers", "self._line_entities"],
         ensures={"value": "result == selected_item(self, line)"},
         doc="call-site view of select_run_item_by_line (its own contract is proved above)")

# collector
contract(R + "FeatureScenarioLocationCollector.add_location", props=P,
         params={"self": "ref:FeatureScenarioLocationCollector", "location": "ref:FileLocation"},
         requires={"same-file": "is_none(self.filename) or not truthy(self.filename) or self.filename == location.filename"},
         modifies=["self.filename", "self.use_all_scenarios", "dict(self.scenario_lines)"],
         ensures={
             "line-recorded": "implies(not is_none(location.line) and location.line != 0, "
                              "has_key(self.scenario_lines, location.line) and self.use_all_scenarios == old(self.use_all_scenarios))",
             "no-line-means-all": "implies(is_none(location.line) or location.line == 0, self.use_all_scenarios == True)",
             "other-lines-kept": "forall(lambda x: implies(old(has_key(self.scenario_lines, x)), has_key(self.scenario_lines, x)))",
             "nothing-else-added": "forall(lambda x: implies(has_key(self.scenario_lines, x), "
                                   "old(has_key(self.scenario_lines, x)) or x == location.line))",
         })

prop("C10", level="proof", bounded=[],
     explanation="bisect-based entity lookup proved for every integer line; entity->scenarios expansion and "
                 "location recording proved; regex/file parsing and name selection are bounded",
     notes=["make_line_data_for (recursion + sorted) and build_feature (set difference) are covered by the bounded stand-in only"])

# -- a new file starts with a clean collector (parse_features calls clear() between files) ---------------------------
shape("FeatureScenarioLocationCollector", feature="any", filename="any", use_all_scenarios="bool", scenario_lines="set",
      all_scenarios="any", selected_scenarios="any")
contract(R + "FeatureScenarioLocationCollector.clear", props=["C10", "C17"], params={"self": "ref:FeatureScenarioLocationCollector"},
         self_classes=["FeatureScenarioLocationCollector"],
         modifies=["self.feature", "self.filename", "self.use_all_scenarios", "self.scenario_lines", "self.all_scenarios",
                   "self.selected_scenarios"],
         ensures={"nothing-of-the-previous-file-is-kept":
                  "is_none(self.feature) and is_none(self.filename) and self.use_all_scenarios == False and "
                  "is_fresh(self.scenario_lines) and len(self.scenario_lines) == 0 and "
                  "forall_val(lambda x: not has_key(self.scenario_lines, x)) and "
                  "is_fresh(self.all_scenarios) and len(as_ref(self.all_scenarios, 'set')) == 0 and "
                  "is_fresh(self.selected_scenarios) and len(as_ref(self.selected_scenarios, 'set')) == 0"})

# -- name selection of an outline: selected iff one of its row scenarios is (no shortcut on the template name) ------------
oracle("name_sel", ["val", "val"], "bool")       # scenario.should_run_with_name_select(config) of a plain scenario
contract("abs:Scenario.should_run_with_name_select.row", trusted=True, pos_params=["self", "config"], pure=True, result="any",
         ensures={"value": "truthy(result) == name_sel(config, self)"},
         doc="name regexp searched in the scenario name (re: A-lib)")
shape("Configuration", name="any")
OROWS = "as_list(rows_of(self), 'ref:Scenario')"
contract("behave.model:ScenarioOutline.should_run_with_name_select", props=["C10"],
         params={"self": "ref:ScenarioOutline", "config": "ref:Configuration"}, self_classes=["ScenarioOutline"], result="bool",
         callsites={"scenario.should_run_with_name_select": "abs:Scenario.should_run_with_name_select.row"},
         modifies=["*._scenarios", "*.index", "*.id", "*.modified"],
         loops=[Loop(invariant={"no-earlier-row-selected": "forall(lambda k: implies(0 <= k < _i, not name_sel(config, _at(k))))",
                                "same": "_seq is rows_of(self)"})],
         ensures={"all-when-no-name-given": "implies(not truthy(config.name), result == True)",
                  "otherwise-selected-iff-some-row-scenario-matches":
                  "implies(truthy(config.name), result == exists(lambda k: 0 <= k < len(%s) and name_sel(config, %s[k])))" % (OROWS, OROWS)})
