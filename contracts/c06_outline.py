# -*- coding: utf-8 -*-
"""C06 (and the row-tag part of C09) -- scenario outline expansion: the structural part under contract.

String templating itself (render_template's replace chain, Tag.make_name) is uninterpreted here: the contracts
pin *which* text is rendered with *which* row and parameters, in which order, and what is dropped -- the
substitution semantics is covered by the bounded stand-in (and KF-C06-1/2).
"""
from pyvc.contracts import contract, oracle, Loop, shape, macro, global_const
from contracts import prop

M = "behave.model:"
P = ["C06", "C09"]

oracle("rendered", ["val", "val", "val"], "val:str")     # ScenarioOutlineBuilder.render_template(text, row, params)
oracle("tag_name", ["val"], "val:str")                   # Tag.make_name(text, unescape=True)
contract("abs:render_template", trusted=True, pos_params=["text", "row", "params"], defaults={"row": None, "params": None},
         pure=True, result="str", ensures={"value": "result == rendered(text, row, params)"},
         doc="placeholder substitution as a function of (template text, row, extra parameters) (bounded: C06 stand-in)")
contract("abs:Tag.make_name", trusted=True, pos_params=["text"], kwarg="kw", pure=True, result="str",
         ensures={"value": "result == tag_name(text)"}, doc="Tag.make_name(text, unescape=True) (string surgery: bounded)")
contract(M + "ScenarioOutlineBuilder.is_parametrized_tag", props=P, params={"tag": "str"}, result="bool", pure=True,
         ensures={"contains-a-placeholder-bracket-pair": "result == (str_in('<', tag) and str_in('>', tag))"})
contract(M + "ScenarioOutlineBuilder.is_parametrized_step", props=["C06"], params={"step": "ref:Step"}, result="bool", pure=True,
         ensures={"looks-at-the-step-name-only": "result == (str_in('<', step.name) and str_in('>', step.name))"},
         doc="only the step *name* decides; doc-strings and tables may carry placeholders of their own")
contract(M + "ScenarioOutlineBuilder.has_parametrized_steps", props=["C06"], params={"steps": "seq:ref:Step"}, result="bool", pure=True,
         loops=[Loop(invariant={"none-so-far": "forall(lambda k: implies(0 <= k < _i, not (str_in('<', _at(k).name) and str_in('>', _at(k).name))))"})],
         ensures={"some-step-name-has-a-placeholder":
                  "result == exists(lambda k: 0 <= k < len(steps) and str_in('<', steps[k].name) and str_in('>', steps[k].name))"})
macro("ptag", ["t"], "(str_in('<', t) and str_in('>', t))")
macro("row_tag_src", ["t", "row", "params"], "ite(ptag(t), rendered(t, row, params), t)")
contract(M + "ScenarioOutlineBuilder.make_row_tags", props=P,
         params={"outline_tags": "seq:str", "row": "any", "params": "any"},
         callsites={"cls.render_template": "abs:render_template", "Tag.make_name": "abs:Tag.make_name"},
         result="seq:str",
         loops=[Loop(invariant={
             "tags-so-far-come-from-kept-outline-tags":
                 "forall(lambda j: implies(0 <= j < len(tags), exists(lambda k: 0 <= k < _i and "
                 "not ptag(row_tag_src(_at(k), row, params)) and tags[j] == tag_name(row_tag_src(_at(k), row, params)))))",
             "every-kept-outline-tag-so-far-is-there":
                 "forall(lambda k: implies(0 <= k < _i and not ptag(row_tag_src(_at(k), row, params)), "
                 "exists(lambda j: 0 <= j < len(tags) and tags[j] == tag_name(row_tag_src(_at(k), row, params)))))",
             "no-more-than-seen": "0 <= len(tags) <= _i", "same": "_seq is outline_tags"})],
         ensures={
             "a-new-list": "is_fresh(result)",
             "every-row-tag-is-an-outline-tag-rendered-with-this-row-and-these-parameters":
                 "forall(lambda j: implies(0 <= j < len(result), exists(lambda k: 0 <= k < len(outline_tags) and "
                 "not ptag(row_tag_src(outline_tags[k], row, params)) and "
                 "result[j] == tag_name(row_tag_src(outline_tags[k], row, params)))))",
             "every-outline-tag-without-an-unknown-placeholder-is-kept":
                 "forall(lambda k: implies(0 <= k < len(outline_tags) and not ptag(row_tag_src(outline_tags[k], row, params)), "
                 "exists(lambda j: 0 <= j < len(result) and result[j] == tag_name(row_tag_src(outline_tags[k], row, params)))))",
             "never-more-tags-than-the-outline-has": "len(result) <= len(outline_tags)",
         })

# -- one scenario per example row ------------------------------------------------------------------------
oracle("row_step", ["val", "val", "val"], "val")          # make_step_for_row(outline_step, row, params): the step copy for a row
oracle("scen_name", ["val", "val", "val", "val"], "val:str")
shape("ScenarioOutline", examples="seq:ref:Examples", _scenarios="seq:ref:Scenario", annotation_schema="any")
shape("Examples", table="opt:ref:Table", tags="seq:str", name="any", index="any")
shape("Table", modified="bool", rows="seq:ref:Row")
shape("Row", index="any", id="any", line="any")
contract("abs:ScenarioOutlineBuilder.make_step_for_row", trusted=True, pos_params=["outline_step", "row", "params"],
         defaults={"params": None}, fresh_result="Step",
         ensures={"the-row's-copy-of-that-step": "copy_of(result) is outline_step and row_step(outline_step, row, params) is result"},
         doc="deepcopy of the outline step with name/text/table cells rendered for the row (string surgery: bounded)")
contract("abs:ScenarioOutlineBuilder.make_scenario_name", trusted=True, params={"self": "ref:ScenarioOutlineBuilder"},
         pos_params=["self", "outline_name", "example", "row", "params"], defaults={"params": None},
         modifies=["dict(params)"], result="str",
         ensures={"value": "result == scen_name(outline_name, example, row, self)"},
         doc="name of the row scenario from the annotation schema (string formatting: bounded)")
contract("abs:ScenarioOutlineBuilder.has_parametrized_steps", trusted=True, pos_params=["steps"], pure=True, result="bool",
         doc="some step name contains a placeholder")
contract("new:Scenario", trusted=True,
         pos_params=["filename", "line", "keyword", "name", "tags", "steps", "description", "parent", "background", "background_steps"],
         defaults={"tags": None, "steps": None, "description": None, "parent": None, "background": None, "background_steps": None},
         fresh_result="Scenario",
         ensures={"fields": "result.name == name and result.tags is tags and result.steps is steps and result.parent is parent "
                            "and result.background is background and result._background_steps is background_steps"},
         doc="Scenario.__init__ stores its arguments (A: constructor; the tags/steps lists are stored, not copied)")
shape("Scenario", feature="any", _row="any", parent="opt:ref:TagAndStatusStatement")
contract("abs:BasicStatement.line", trusted=True, params={"self": "ref:BasicStatement"}, pure=True, result="any", doc="location.line")
oracle("n_row_tags", ["val", "val", "val"], "int")
oracle("row_tag_at", ["val", "val", "val", "int"], "val:str")
contract("abs:make_row_tags", trusted=True, pos_params=["self", "outline_tags", "row", "params"], defaults={"params": None},
         fresh_result="list",
         ensures={"the-row-tags-of-these-outline-tags-for-this-row-and-these-parameters":
                  "len(result) == n_row_tags(outline_tags, row, params) and n_row_tags(outline_tags, row, params) >= 0 and "
                  "forall(lambda j: implies(0 <= j < len(result), result[j] == row_tag_at(outline_tags, row, params, j)))"},
         doc="call-site view of make_row_tags in make_scenario_for: a new list that is a function of (outline tags, row, parameters); "
             "what that function is, is the proved contract of ScenarioOutlineBuilder.make_row_tags above")
TPL = "scenario_template"
BGROW = ("row-background-steps-are-row-copies-of-all-the-template's-background-steps-inherited-and-own,"
         "one-new-step-per-outline-step-in-order,a-new-scenario-whose-parent-is-the-outline")
contract(M + "ScenarioOutlineBuilder.make_scenario_for", props=P + ["C02", "C12:" + BGROW, "C16:" + BGROW],
         params={"self": "ref:ScenarioOutlineBuilder", "example": "ref:Examples", "row": "ref:Row",
                 "scenario_template": "ref:ScenarioOutline", "params": "dict"},
         self_classes=["ScenarioOutlineBuilder"],
         callsites={"self.make_step_for_row": "abs:ScenarioOutlineBuilder.make_step_for_row",
                    "self.make_scenario_name": "abs:ScenarioOutlineBuilder.make_scenario_name",
                    "self.has_parametrized_steps": "abs:ScenarioOutlineBuilder.has_parametrized_steps",
                    "self.make_row_tags": "abs:make_row_tags", "Scenario": "new:Scenario"},
         modifies=["dict(params)", "*.status", "*.hook_failed", "*.duration", "*.exception", "*.exc_traceback",
                   "*.error_message", "*.captured", "*._background_steps", "*._inherited_steps"],
         loops=[Loop(invariant={
                    "one-row-copy-per-background-step-so-far-in-order":
                        "len(background_steps) == _i and forall(lambda k: implies(0 <= k < _i, "
                        "is_fresh(background_steps[k]) and copy_of(background_steps[k]) is _at(k)))",
                    "same": "_seq is the_background_steps"}),
                Loop(invariant={
                    "one-row-copy-per-outline-step-so-far-in-order":
                        "len(new_steps) == _i and forall(lambda k: implies(0 <= k < _i, is_fresh(new_steps[k]) and "
                        "copy_of(new_steps[k]) is _at(k) and new_steps[k] is row_step(_at(k), row, params)))",
                    "same": "_seq is scenario_template.steps"})],
         ensures={
             "a-new-scenario-whose-parent-is-the-outline": "is_fresh(result) and exact_type(result, 'Scenario') and result.parent is scenario_template",
             "belongs-to-the-row": "result._row is row",
             "one-new-step-per-outline-step-in-order":
                 "len(result.steps) == len(scenario_template.steps) and forall(lambda k: implies(0 <= k < len(scenario_template.steps), "
                 "is_fresh(result.steps[k]) and copy_of(result.steps[k]) is scenario_template.steps[k]))",
             "every-step-is-the-row-rendering-of-its-outline-step-name-doc-string-and-table":
                 "forall(lambda k: implies(0 <= k < len(scenario_template.steps), "
                 "result.steps[k] is row_step(scenario_template.steps[k], row, params)))",
             "tags-end-with-the-examples-block's-tags":
                 "len(result.tags) >= len(example.tags) and forall(lambda k: implies(0 <= k < len(example.tags), "
                 "result.tags[len(result.tags) - len(example.tags) + k] == example.tags[k]))",
             "tags-before-them-are-the-outline's-tags-rendered-with-this-row-and-the-builder-parameters":
                 "len(result.tags) == n_row_tags(scenario_template.tags, row, params) + len(example.tags) and "
                 "forall(lambda j: implies(0 <= j < n_row_tags(scenario_template.tags, row, params), "
                 "result.tags[j] == row_tag_at(scenario_template.tags, row, params, j)))",
             "row-background-steps-are-row-copies-of-all-the-template's-background-steps-inherited-and-own":
                 "implies(not is_none(result._background_steps), not is_none(scenario_template._background_steps) and "
                 "len(as_list(result._background_steps, 'ref:Step')) == len(as_list(scenario_template._background_steps, 'ref:Step')) and "
                 "forall(lambda k: implies(0 <= k < len(as_list(scenario_template._background_steps, 'ref:Step')), "
                 "copy_of(copy_of(as_list(result._background_steps, 'ref:Step')[k])) is "
                 "as_list(scenario_template._background_steps, 'ref:Step')[k])))",
             "the-template-keeps-its-steps-and-tags":
                 "len(scenario_template.steps) == old(len(scenario_template.steps)) and len(scenario_template.tags) == old(len(scenario_template.tags))",
         })

# -- the row scenarios are rebuilt exactly when an Examples table changed ---------------------------------------
MODIFIED = ("exists(lambda k: 0 <= k < len(self.examples) and not is_none(self.examples[k].table) and "
            "as_ref(self.examples[k].table, 'Table').modified)")
contract(M + "ScenarioOutline._is_any_example_table_modified", props=["C06", "C16", "C14", "C17"], params={"self": "ref:ScenarioOutline"},
         self_classes=["ScenarioOutline"], result="bool", pure=True,
         ensures={"some-examples-table-is-marked-modified": "result == %s" % MODIFIED})
oracle("built", ["ref", "int"], "val")       # the scenario list the builder produces for the outline (k-th build)
ghost = None
from pyvc.contracts import ghost as _ghost
_ghost("nbuilds", "int")
contract("new:ScenarioOutlineBuilder", trusted=True, pos_params=["annotation_schema"], defaults={"annotation_schema": None},
         fresh_result="ScenarioOutlineBuilder", doc="builder object (holds the annotation schema)")
contract("abs:ScenarioOutlineBuilder.build_scenarios", trusted=True, params={"self": "ref:ScenarioOutlineBuilder"},
         pos_params=["self", "scenario_outline"], modifies=["G_nbuilds", "*.modified", "*.index", "*.id"],
         fresh_result="list",
         ensures={"a-new-list-of-row-scenarios": "G_nbuilds == old(G_nbuilds) + 1 and result is built(scenario_outline, old(G_nbuilds))",
                  "modified-flags-cleared":
                  "forall(lambda k: implies(0 <= k < len(scenario_outline.examples) and not is_none(scenario_outline.examples[k].table), "
                  "as_ref(scenario_outline.examples[k].table, 'Table').modified == False))"},
         doc="call-site view of build_scenarios inside ScenarioOutline.scenarios: a new list per build and no table left marked "
             "modified (the real ScenarioOutlineBuilder.build_scenarios is proved below: one scenario per examples row in block "
             "then row order, every table unmarked)")
contract(M + "ScenarioOutline.scenarios", props=["C06"], params={"self": "ref:ScenarioOutline"},
         self_classes=["ScenarioOutline"], result="seq:ref:Scenario",
         callsites={"ScenarioOutlineBuilder": "new:ScenarioOutlineBuilder",
                    "builder.build_scenarios": "abs:ScenarioOutlineBuilder.build_scenarios"},
         modifies=["self._scenarios", "G_nbuilds", "*.modified", "*.index", "*.id"],
         ensures={
             "rebuilt-exactly-when-an-examples-table-was-modified":
                 "G_nbuilds == old(G_nbuilds) + (1 if old(%s) else 0)" % MODIFIED,
             "a-modified-table-gives-a-new-list": "implies(old(%s), is_fresh(result) and result is built(self, old(G_nbuilds)))" % MODIFIED,
             "otherwise-the-cached-list": "implies(not old(%s), result is old(self._scenarios))" % MODIFIED,
             "the-result-is-cached": "self._scenarios is result",
             "no-table-is-left-modified": "not %s" % MODIFIED,
         })

prop("C06", level="other", bounded=[],
     explanation="proved (structure): a row scenario is a new Scenario whose parent is the outline, with one new copy per outline "
                 "step in order, tags = the outline's tags rendered with this row and the builder's parameters (tags keeping an "
                 "unknown placeholder dropped) followed by the examples block's tags; the template keeps its steps and tags; "
                 "make_step_for_row edits only the new deep copy (frame: no list that existed before -- the outline step's table "
                 "headings, rows, cells -- changes), so rows cannot influence each other or the template; the "
                 "row scenarios are rebuilt exactly when some Examples table is marked modified, cached otherwise, and no table is "
                 "left marked; render_template returns text without a '<'..'>' pair unchanged and otherwise applies one "
                 "replacement per (name, value) pair of the row and then of the extra parameters, in order, none skipped "
                 "(str.replace itself uninterpreted). Bounded: what the replacements do to the characters (step tables, names, "
                 "KF-C06-1), row ids and generated names, Table API histories; build_scenarios yields exactly one new scenario per "
                 "examples row, in examples-block then row order (blocks without a table contribute none), and leaves no table "
                 "marked modified; Parser._build_examples gives each Examples block its own tag list",
     technique="contract-based deductive verification (own VC generator over the real ASTs, z3/cvc5) of the expansion structure; "
               "bounded run-time contract stand-in for the string substitution",
     notes=["callers see render_template / Tag.make_name / make_scenario_name as functions of their arguments (call-site views); "
            "render_template's own body is proved against the replacement chain rt()",
            "Scenario(...) constructor stores its arguments (trusted contract new:Scenario)"])

# -- rows never influence each other or the template: the step of a row is a deep copy --------------------------------
shape("Step", table="opt:ref:Table", text="any")
shape("Table", headings="seq:str", rows="seq:ref:Row")
shape("Row", cells="seq:str", headings="any")
contract("lib:copy.deepcopy", trusted=True, pos_params=["x"], fresh_result="Step",
         ensures={"shares-nothing-mutable-with-the-original":
                  "copy_of(result) is x and result.name == as_ref(x, 'Step').name and "
                  "(is_none(result.table) == is_none(as_ref(x, 'Step').table)) and "
                  "implies(not is_none(result.table), is_fresh(result.table) and is_fresh(as_ref(result.table, 'Table').headings) and "
                  "is_fresh(as_ref(result.table, 'Table').rows) and "
                  "forall(lambda k: implies(0 <= k < len(as_ref(result.table, 'Table').rows), "
                  "is_fresh(as_ref(result.table, 'Table').rows[k]) and is_fresh(as_ref(result.table, 'Table').rows[k].cells))))"},
         doc="copy.deepcopy(step): a new Step whose table, heading list, rows and cell lists are new objects (A-lib)")
contract("abs:Row.items", trusted=True, params={"self": "ref:Row"}, pos_params=["self"], pure=True, result="seq:tuple:str",
         ensures={"pairs": "forall(lambda k: implies(0 <= k < len(result), len(as_tuple(result[k], 'str')) == 2))"},
         doc="row.items(): (heading, cell) pairs of an Examples row")
contract("abs:Table.__iter__", trusted=True, params={"self": "ref:Table"}, pos_params=["self"], pure=True, result="seq:ref:Row",
         ensures={"the-rows": "result is self.rows"}, doc="iter(table) == iter(table.rows)")
_T = "as_ref(new_step.table, 'Table')"
_INV = {"only-the-copy-is-edited": "old_lists_unchanged()",
        "the-copy-keeps-its-own-new-lists":
            "not is_none(new_step.table) and is_fresh(new_step.table) and is_fresh(%(t)s.headings) and is_fresh(%(t)s.rows) and "
            "forall(lambda k: implies(0 <= k < len(%(t)s.rows), is_fresh(%(t)s.rows[k]) and is_fresh(%(t)s.rows[k].cells)))" % {"t": _T}}
contract(M + "ScenarioOutlineBuilder.make_step_for_row", props=["C06", "C02"],
         params={"outline_step": "ref:Step", "row": "ref:Row", "params": "any"},
         callsites={"cls.render_template": "abs:render_template"},
         modifies=[],
         loops=[Loop(invariant=_INV, modifies=["lists"]),
                Loop(invariant=dict(_INV, **{"heading-count-kept": "_n == len(%s.headings)" % _T}), modifies=["lists"]),
                Loop(invariant=_INV, modifies=["lists"]),
                Loop(invariant=dict(_INV, **{"cell-count-kept": "_n == len(step_row.cells)"}), modifies=["lists"])],
         ensures={"a-new-step-copied-from-the-outline-step": "is_fresh(result) and copy_of(result) is outline_step",
                  "its-name-is-the-outline-step's-name-rendered-for-this-row": "result.name == rendered(old(outline_step.name), row, params)"},
         doc="`modifies=[]`: nothing that existed before the call changes -- the outline step, its table, rows and cells "
             "(frame obligations); only the new copy is edited")

# -- render_template: the substitution chain itself ------------------------------------------------------
oracle("ph_items", ["val"], "val")                     # placeholders.items(): the (name, value) pairs of a row / dict
oracle("rt", ["val:str", "val", "int"], "val:str")     # text after substituting the first k pairs
contract("abs:placeholders.items", trusted=True, pos_params=["self"], pure=True, result="seq:tuple:str",
         ensures={"value": "result is ph_items(self)",
                  "pairs": "forall(lambda k: implies(0 <= k < len(result), len(as_tuple(result[k], 'str')) == 2))"},
         doc="row.items() / dict.items(): a sequence of (name, value) pairs that depends on the provider only (A-lib)")
_ITEMS = "as_list(%s, 'tuple:str')"
contract(M + "ScenarioOutlineBuilder.render_template", props=["C06"],
         params={"text": "str", "row": "any", "params": "any"}, result="str",
         callsites={"placeholders.items": "abs:placeholders.items"},
         modifies=[],
         assume={"definition-of-rt: substitute the pairs one after the other":
                 "forall_val(lambda t: forall_val(lambda s: rt(t, s, 0) == t and forall(lambda k: implies("
                 "0 <= k < len(as_list(s, 'tuple:str')), rt(t, s, k + 1) == rt(t, s, k).replace("
                 "u'<%s>' % as_tuple(as_list(s, 'tuple:str')[k], 'str')[0], as_tuple(as_list(s, 'tuple:str')[k], 'str')[1])))))"},
         loops=[None,
                Loop(invariant={"first-i-pairs-substituted": "text == rt(pre(text), _seq, _i)"})],
         ensures={
             "text-without-a-placeholder-bracket-pair-is-returned-unchanged": "implies(not ptag(text), result == text)",
             "every-pair-of-the-row-then-of-the-parameters-is-substituted-in-order":
                 "implies(ptag(text), result == rt(ite(truthy(row), rt(text, ph_items(row), len(%s)), text), ph_items(params), "
                 "ite(truthy(params), len(%s), 0)))" % (_ITEMS % "ph_items(row)", _ITEMS % "ph_items(params)"),
         },
         doc="`str.replace` and `%` formatting are uninterpreted (A-str); what is proved is which replacements are made, "
             "with which pair, in which order, and that none is skipped")

# -- build_scenarios: one scenario per examples row, in examples-block then row order; every table left unmodified --------
oracle("bs_off", ["ref", "int"], "int")     # number of rows in the first k examples blocks of an outline (blocks without table: 0)
EX = "scenario_outline.examples"
_ROWS = "as_ref(%s.table, 'Table').rows"
oracle("text_of", ["val"], "val:str")          # six.text_type(x)
contract("abs:make_scenario_for", trusted=True, params={"self": "ref:ScenarioOutlineBuilder", "example": "ref:Examples", "row": "ref:Row"},
         pos_params=["self", "example", "row", "scenario_template", "params"], fresh_result="Scenario",
         requires={"the-row-placeholders-row.id-and-row.index-describe-this-row":
                   "dict_value(params, 'row.id') == row.id and dict_value(params, 'row.index') == text_of(row.index)"},
         modifies=["dict(params)", "*.status", "*.hook_failed", "*.duration", "*.exception", "*.exc_traceback",
                   "*.error_message", "*.captured", "*._background_steps", "*._inherited_steps"],
         ensures={"the-row's-scenario": "result._row is row and result.parent is scenario_template and exact_type(result, 'Scenario')"},
         doc="call-site view of make_scenario_for in build_scenarios (a new Scenario belonging to the row; proved above)")
contract("abs:_text.bs", trusted=True, pos_params=["x"], pure=True, result="str", ensures={"value": "result == text_of(x)"},
         doc="six.text_type(x) as a function of x")
_BS_COMMON = {
    "earlier-entries-are-the-rows-of-the-earlier-blocks":
        "forall(lambda e, r: implies(0 <= e < %(ei)s and not is_none(%(ex)s[e].table) and 0 <= r and "
        "r < len(as_ref(%(ex)s[e].table, 'Table').rows), "
        "is_fresh(scenarios[bs_off(scenario_outline, e) + r]) and "
        "scenarios[bs_off(scenario_outline, e) + r]._row is as_ref(%(ex)s[e].table, 'Table').rows[r]))",
    "earlier-tables-are-unmodified":
        "forall(lambda e: implies(0 <= e < %(ei)s and not is_none(%(ex)s[e].table), "
        "as_ref(%(ex)s[e].table, 'Table').modified == False))",
    "a-new-list": "is_fresh(scenarios)",
    "no-list-that-existed-before-changes": "old_lists_unchanged()",
    "earlier-blocks-end-before-the-current-offset":
        "forall(lambda e: implies(0 <= e < %(ei)s and not is_none(%(ex)s[e].table), 0 <= bs_off(scenario_outline, e) and "
        "bs_off(scenario_outline, e) + len(as_ref(%(ex)s[e].table, 'Table').rows) <= bs_off(scenario_outline, %(ei)s)))",
}
_BS_MOD = ["list(scenarios)", "dict(params)", "*.modified", "*.index", "*.id", "*.status", "*.hook_failed", "*.duration", "*.exception",
           "*.exc_traceback", "*.error_message", "*.captured", "*._background_steps", "*._inherited_steps"]
contract(M + "ScenarioOutlineBuilder.build_scenarios", props=["C06", "C10", "C17", "C03", "C09", "C14", "C16"],
         params={"self": "ref:ScenarioOutlineBuilder", "scenario_outline": "ref:ScenarioOutline"},
         self_classes=["ScenarioOutlineBuilder"],
         callsites={"self.make_scenario_for": "abs:make_scenario_for", "_text": "abs:_text.bs"},
         requires={"tables-are-not-shared-between-examples-blocks":
                   "forall(lambda a, b: implies(0 <= a < b and b < len(%(ex)s) and not is_none(%(ex)s[a].table), "
                   "%(ex)s[a].table is not %(ex)s[b].table))" % {"ex": EX}},
         assume={"definition-of-bs_off: rows before block k":
                 "bs_off(scenario_outline, 0) == 0 and forall(lambda k: implies(0 <= k < len(%(ex)s), "
                 "bs_off(scenario_outline, k + 1) == bs_off(scenario_outline, k) + "
                 "(0 if is_none(%(ex)s[k].table) else len(as_ref(%(ex)s[k].table, 'Table').rows))))" % {"ex": EX}},
         modifies=["*.modified", "*.index", "*.id", "*.status", "*.hook_failed", "*.duration", "*.exception", "*.exc_traceback",
                   "*.error_message", "*.captured", "*._background_steps", "*._inherited_steps"],
         loops=[Loop(modifies=_BS_MOD, invariant=dict({k: v % {"ei": "_i", "ex": EX} for k, v in _BS_COMMON.items()}, **{
                    "length-so-far": "len(scenarios) == bs_off(scenario_outline, _i) and bs_off(scenario_outline, _i) >= 0",
                    "offsets-are-monotone": "forall(lambda a: implies(0 <= a <= _i, 0 <= bs_off(scenario_outline, a) and "
                                            "bs_off(scenario_outline, a) <= bs_off(scenario_outline, _i)))",
                    "same": "_seq is %s" % EX})),
                Loop(modifies=_BS_MOD, invariant=dict({k: v % {"ei": "example_index", "ex": EX} for k, v in _BS_COMMON.items()}, **{
                    "length-so-far": "len(scenarios) == bs_off(scenario_outline, example_index) + _i and "
                                     "bs_off(scenario_outline, example_index) >= 0",
                    "rows-of-this-block-so-far":
                        "forall(lambda e, r: implies(e == example_index and 0 <= r and r < _i, "
                        "is_fresh(scenarios[bs_off(scenario_outline, e) + r]) and "
                        "scenarios[bs_off(scenario_outline, e) + r]._row is as_ref(%(ex)s[e].table, 'Table').rows[r]))" % {"ex": EX},
                    "same": "_seq is as_ref(example.table, 'Table').rows and not is_none(example.table) and "
                            "0 <= example_index < len(%(ex)s) and example is %(ex)s[example_index]" % {"ex": EX}}))],
         ensures={
             "one-scenario-per-examples-row-in-block-then-row-order":
                 "is_fresh(result) and len(result) == bs_off(scenario_outline, len(%(ex)s)) and "
                 "forall(lambda e, r: implies(0 <= e < len(%(ex)s) and not is_none(%(ex)s[e].table) and 0 <= r and "
                 "r < len(as_ref(%(ex)s[e].table, 'Table').rows), "
                 "is_fresh(result[bs_off(scenario_outline, e) + r]) and "
                 "result[bs_off(scenario_outline, e) + r]._row is as_ref(%(ex)s[e].table, 'Table').rows[r]))" % {"ex": EX},
             "no-examples-table-is-left-marked-modified":
                 "forall(lambda e: implies(0 <= e < len(%(ex)s) and not is_none(%(ex)s[e].table), "
                 "as_ref(%(ex)s[e].table, 'Table').modified == False))" % {"ex": EX},
         },
         doc="blocks without a table contribute no scenario (NO-TABLE syndrome: reported, skipped)")
