# -*- coding: utf-8 -*-
"""C13 -- the Context as a stack of scopes: the real methods of behave.runner.Context under contract.

View: self._stack is a list of scope dictionaries, innermost first.  visible(attr) = the value in the first
scope that has the key.  The run methods use the abstract Context contracts of runs_common.py (depth counter,
value of context.scenario / rule / feature); correspondence: G_ctx_depth = len(_stack) - 1, G_ctx_<name> =
visible('<name>') (ABSENT when no scope has the key), G_ctx_saved_<name>(d) = the value visible before the
scope of depth d was pushed.
"""
from pyvc.contracts import contract, oracle, ghost, Loop, Raises, macro, shape, trusted_note, global_const
from contracts import prop
from contracts.run_containers import _RUN_NOTES

R = "behave.runner:"
P = ["C13"]

shape("Context", _stack="seq:dict:@cleanups=seq:any;@layer=str;*=any", _root="dict:cleanup_errors=int;*=any", _record="dict", _origin="dict", _mode="any", _config="any",
      _runner="any", fail_on_cleanup_errors="bool", __dict__="dict")
STK = "self._stack"
macro("ctx_has", ["c", "a"], "exists(lambda k: 0 <= k < len(c._stack) and has_key(c._stack[k], a))")
macro("ctx_first", ["c", "a", "k"],
      "0 <= k < len(c._stack) and has_key(c._stack[k], a) and forall(lambda j: implies(0 <= j < k, not has_key(c._stack[j], a)))")
PUBLIC = {"public-attribute-name": "len(attr) > 0 and attr[0] != '_'"}

contract(R + "Context.__getattr__", props=P, params={"self": "ref:Context", "attr": "str"}, self_classes=["Context"],
         requires=PUBLIC, pure=True,
         raises=[Raises("AttributeError", when="not ctx_has(self, attr)", label="unknown-in-every-open-scope")],
         loops=[Loop(invariant={"not-in-an-inner-scope": "forall(lambda j: implies(0 <= j < _i, not has_key(_at(j), attr)))",
                                "same-stack": "_seq is self._stack"})],
         ensures={"value-of-the-innermost-scope-that-has-it":
                  "exists(lambda k: ctx_first(self, attr, k) and result == dict_value(self._stack[k], attr))"})
contract(R + "Context.__contains__", props=P, params={"self": "ref:Context", "attr": "str"}, self_classes=["Context"],
         requires=PUBLIC, pure=True, result="bool",
         loops=[Loop(invariant={"not-in-an-inner-scope": "forall(lambda j: implies(0 <= j < _i, not has_key(_at(j), attr)))",
                                "same-stack": "_seq is self._stack"})],
         ensures={"visible-iff-some-open-scope-has-it": "result == ctx_has(self, attr)"})

# -- assignment: always into the innermost scope, never into an outer one -------------------------------------------
contract("abs:Context._emit_warning", trusted=True, params={"self": "ref:Context"}, pos_params=["self", "attr", "params"], pure=True,
         doc="warnings.warn of the masking message (A-lib)")
contract("abs:dict.get.record", trusted=True, pos_params=["self", "key", "default"], pure=True, result="tuple:any",
         ensures={"a-four-tuple": "len(result) == 4"}, doc="self._record.get(attr, UNKNOWN_RECORD) (A-lib)")
contract("lib:traceback.extract_stack", trusted=True, pos_params=[], kwarg="kw", pure=True, result="seq:any",
         ensures={"at-least-the-caller": "len(result) >= 1"}, doc="traceback.extract_stack(limit=n) (A-lib)")
contract(R + "Context.__setattr__", props=P, params={"self": "ref:Context", "attr": "str", "value": "any"}, self_classes=["Context"],
         requires=dict(PUBLIC, **{"a-scope-is-open": "len(self._stack) >= 1",
                                  "bookkeeping-dictionaries-are-not-scopes":
                                  "forall(lambda k: implies(0 <= k < len(self._stack), self._record is not self._stack[k] and "
                                  "self._origin is not self._stack[k])) and self._record is not self._origin",
                                  "every-scope-is-a-dictionary-of-its-own (each _push creates one)":
                                  "forall(lambda k: implies(1 <= k < len(self._stack), self._stack[k] is not self._stack[0]))"}),
         callsites={"self._emit_warning": "abs:Context._emit_warning", "self._record.get": "abs:dict.get.record",
                    "traceback.extract_stack": "lib:traceback.extract_stack"},
         globals={"six.PY2": False},
         modifies=["dict(self._stack[0])", "dict(self._record)", "dict(self._origin)"],
         loops=[Loop(invariant={"still-a-scope-open": "len(self._stack) >= 1"}, modifies=[])],
         ensures={"stored-in-the-current-scope": "has_key(self._stack[0], attr) and dict_value(self._stack[0], attr) == value",
                  "other-names-of-the-current-scope-kept":
                  "forall_val(lambda a: implies(a != attr, has_key(self._stack[0], a) == old(has_key(self._stack[0], a)) and "
                  "dict_value(self._stack[0], a) == old(dict_value(self._stack[0], a))))",
                  "scope-stack-kept": "len(self._stack) == old(len(self._stack)) and "
                                      "forall(lambda k: implies(0 <= k < len(self._stack), self._stack[k] is old(self._stack[k])))"})

# -- scopes open and close -----------------------------------------------------------------------------------
contract(R + "Context._push", props=P, params={"self": "ref:Context", "layer": "opt:str"}, self_classes=["Context"],
         modifies=["list(self._stack)"],
         ensures={
             "one-more-scope": "len(self._stack) == old(len(self._stack)) + 1",
             "outer-scopes-kept-in-order": "forall(lambda k: implies(0 <= k < old(len(self._stack)), self._stack[k + 1] is old(self._stack[k])))",
             "new-scope-is-a-new-dictionary": "is_fresh(self._stack[0])",
             "new-scope-holds-only-bookkeeping-keys":
                 "forall_val(lambda a: has_key(self._stack[0], a) == (a == '@cleanups' or (a == '@layer' and truthy(layer))))",
             "new-scope-has-no-cleanups": "is_fresh(dict_value(self._stack[0], '@cleanups')) and "
                                          "len(as_list(dict_value(self._stack[0], '@cleanups'), 'any')) == 0",
             "layer-name-recorded": "implies(truthy(layer), dict_value(self._stack[0], '@layer') == layer)",
         })
oracle("cleanup_raises", ["int"], "bool")
ghost("ncl", "int")           # _do_cleanups invocations so far
contract("abs:Context._do_cleanups.c13", trusted=True, params={"self": "ref:Context"}, pos_params=["self"],
         modifies=["G_ncl", "dicts", "lists"],
         raises=[Raises("Exception", when="cleanup_raises(G_ncl)", ensures={"stack-kept": "self._stack is old(self._stack) and "
                        "len(self._stack) == old(len(self._stack)) and forall(lambda k: implies(0 <= k < len(self._stack), self._stack[k] is old(self._stack[k])))"})],
         ensures={"stack-kept": "self._stack is old(self._stack) and len(self._stack) == old(len(self._stack)) and "
                                "forall(lambda k: implies(0 <= k < len(self._stack), self._stack[k] is old(self._stack[k])))"},
         doc="call-site view of _do_cleanups inside _pop: user cleanups may change any dictionary or list content but "
             "not the scope stack itself (A-user: cleanups do not push/pop scopes)")
contract(R + "Context._pop", props=P, params={"self": "ref:Context"}, self_classes=["Context"],
         requires={"a-scope-is-open": "len(self._stack) >= 1"},
         callsites={"self._do_cleanups": "abs:Context._do_cleanups.c13"},
         modifies=["G_ncl", "dicts", "lists"],
         raises=[Raises("Exception", when="cleanup_raises(G_ncl)", label="a-cleanup-raised",
                        ensures={"scope-closed-even-when-a-cleanup-raises":
                                 "len(self._stack) == old(len(self._stack)) - 1 and "
                                 "forall(lambda k: implies(0 <= k < len(self._stack), self._stack[k] is old(self._stack[k + 1])))"})],
         ensures={"innermost-scope-closed": "len(self._stack) == old(len(self._stack)) - 1",
                  "outer-scopes-kept-in-order": "forall(lambda k: implies(0 <= k < len(self._stack), self._stack[k] is old(self._stack[k + 1])))"})

contract(R + "Context.__delattr__", props=P, params={"self": "ref:Context", "attr": "str"}, self_classes=["Context"],
         requires={"a-scope-is-open": "len(self._stack) >= 1",
                   "bookkeeping-dictionaries-are-not-scopes": "self._record is not self._stack[0]"},
         modifies=["dict(self._stack[0])", "dict(self._record)"],
         raises=[Raises("AttributeError", when="not has_key(self._stack[0], attr)", label="not-set-in-the-current-scope")],
         ensures={"removed-from-the-current-scope-only":
                  "forall_val(lambda a: has_key(self._stack[0], a) == (old(has_key(self._stack[0], a)) and a != attr))",
                  "other-values-of-the-current-scope-kept":
                  "forall_val(lambda a: implies(a != attr, dict_value(self._stack[0], a) == old(dict_value(self._stack[0], a))))",
                  "scope-stack-kept": "len(self._stack) == old(len(self._stack)) and "
                                      "forall(lambda k: implies(0 <= k < len(self._stack), self._stack[k] is old(self._stack[k])))"},
         doc="outer scopes are not in the modifies clause: deleting never alters an outer value (frame obligation)")
contract(R + "Context._select_stack_frame_by_layer", props=P, params={"self": "ref:Context", "layer": "str"},
         self_classes=["Context"], pure=True,
         raises=[Raises("LookupError", when="not exists(lambda k: 0 <= k < len(self._stack) and has_key(self._stack[k], '@layer') "
                                            "and dict_value(self._stack[k], '@layer') == layer)", label="no-such-layer")],
         loops=[Loop(invariant={"no-inner-scope-has-that-layer-name":
                                "forall(lambda j: implies(0 <= j < _i, not (has_key(_at(j), '@layer') and dict_value(_at(j), '@layer') == layer)))",
                                "same-stack": "_seq is self._stack"})],
         ensures={"innermost-scope-with-that-layer-name":
                  "exists(lambda k: 0 <= k < len(self._stack) and result is self._stack[k] and has_key(self._stack[k], '@layer') "
                  "and dict_value(self._stack[k], '@layer') == layer and forall(lambda j: implies(0 <= j < k, "
                  "not (has_key(self._stack[j], '@layer') and dict_value(self._stack[j], '@layer') == layer))))"})

# -- cleanups: LIFO, exactly once, all of them even when some raise --------------------------------------------
ghost("cl_n", "int")           # cleanup-function invocations so far
ghost("cl_fn", "array")        # the function invoked by the k-th invocation
oracle("cl_raises", ["int"], "bool")
contract("user:cleanup", trusted=True, pos_params=["callee"], modifies=["G_cl_n"],
         ghost_stores=[("cl_fn", "G_cl_n", "callee")],
         raises=[Raises("Exception", when="cl_raises(G_cl_n)", ensures={"logged": "G_cl_n == old(G_cl_n) + 1"})],
         ensures={"logged": "G_cl_n == old(G_cl_n) + 1"},
         doc="a user cleanup function: raises an Exception subclass iff cl_raises(k); does not touch the scope stack or "
             "the cleanup lists (A-user)")
contract("user:on_cleanup_error", trusted=True, pos_params=["context", "cleanup_func", "exception"], pure=True,
         doc="cleanup error handler (default: print_cleanup_error): does not raise (A-user)")
contract("abs:six.reraise.c13", trusted=True, pos_params=[], vararg="args", pure=True,
         raises=[Raises("Exception", when="True")], doc="six.reraise(*exc_info): re-raises the stored exception (A-lib)")
FUNCS = "as_list(dict_value(self._stack[0], '@cleanups'), 'any')"
K0 = "old(G_cl_n)"
contract(R + "Context._do_cleanups", props=P, params={"self": "ref:Context"}, self_classes=["Context"],
         requires={"a-scope-is-open": "len(self._stack) >= 1",
                   "scope-has-a-cleanup-list": "has_key(self._stack[0], '@cleanups') and has_kind(dict_value(self._stack[0], '@cleanups'), 'list')",
                   "root-counts-cleanup-errors": "has_key(self._root, 'cleanup_errors') and has_kind(dict_value(self._root, 'cleanup_errors'), 'int')",
                   "cleanup-list-is-not-a-scope-or-root": "self._root is not self._stack[0]"},
         callsites={"cleanup_func": "user:cleanup", "on_cleanup_error": "user:on_cleanup_error",
                    "six.reraise": "abs:six.reraise.c13"},
         exprs={"getattr(self, 'on_cleanup_error', self.print_cleanup_error)": ("fresh", "any")},
         modifies=["G_cl_n", "G_cl_fn", "dict(self._root)"],
         raises=[Raises("Exception",
                        when="self.fail_on_cleanup_errors and exists(lambda n: G_cl_n <= n and n < G_cl_n + len(%s) and cl_raises(n))" % FUNCS,
                        label="some-cleanup-raised",
                        ensures={"all-cleanups-still-ran-once-in-reverse-order":
                                 "G_cl_n == %s + len(%s) and forall(lambda j: implies(0 <= j < len(%s), "
                                 "G_cl_fn(%s + j) == %s[len(%s) - 1 - j]))" % (K0, FUNCS, FUNCS, K0, FUNCS, FUNCS)})],
         loops=[Loop(invariant={
             "cleanups-so-far-ran-once-in-reverse-order":
                 "G_cl_n == pre(G_cl_n) + _i and forall(lambda j: implies(0 <= j < _i, G_cl_fn(pre(G_cl_n) + j) == _at(j)))",
             "errors-collected-iff-some-cleanup-so-far-raised":
                 "len(cleanup_errors) >= 0 and "
                 "(len(cleanup_errors) > 0) == exists(lambda n: pre(G_cl_n) <= n and n < G_cl_n and cl_raises(n))",
             "earlier-log-kept": "forall(lambda k: implies(k < pre(G_cl_n), G_cl_fn(k) == pre(G_cl_fn(k))))",
             "root-still-counts": "has_key(self._root, 'cleanup_errors') and has_kind(dict_value(self._root, 'cleanup_errors'), 'int')",
         }, modifies=["G_cl_n", "G_cl_fn", "dict(self._root)", "list(cleanup_errors)"])],
         ensures={"every-cleanup-ran-exactly-once-in-reverse-registration-order":
                  "G_cl_n == %s + len(%s) and forall(lambda j: implies(0 <= j < len(%s), "
                  "G_cl_fn(%s + j) == %s[len(%s) - 1 - j]))" % (K0, FUNCS, FUNCS, K0, FUNCS, FUNCS),
                  "earlier-log-kept": "forall(lambda k: implies(k < %s, G_cl_fn(k) == old(G_cl_fn(k))))" % K0})

TARGET = ("(as_ref(ite(truthy(dict_value(kwargs, 'layer')) and has_key(kwargs, 'layer'), layer_frame(self, dict_value(kwargs, 'layer')), "
          "self._stack[0]), 'dict'))")
macro("cl_target", ["self", "kwargs"], TARGET)
oracle("layer_frame", ["ref", "val"], "val")      # innermost scope whose '@layer' is the given name (see _select_stack_frame_by_layer)
contract("abs:Context._select_stack_frame_by_layer", trusted=False, params={"self": "ref:Context"}, pos_params=["self", "layer"],
         pure=True, result="dict:@cleanups=seq:any;@layer=str;*=any",
         raises=[Raises("LookupError", when="not exists(lambda k: 0 <= k < len(self._stack) and has_key(self._stack[k], '@layer') "
                                            "and dict_value(self._stack[k], '@layer') == layer)")],
         ensures={"a-scope-of-the-stack": "exists(lambda k: 0 <= k < len(self._stack) and result is self._stack[k]) and result is layer_frame(self, layer)"},
         doc="call-site view of _select_stack_frame_by_layer (its own contract, proved above, says which scope)")
CLIST = "as_list(dict_value(%s, '@cleanups'), 'any')"
HAS_LAYER = "(has_key(kwargs, 'layer') and truthy(dict_value(kwargs, 'layer')))"
NO_SUCH_LAYER = ("not exists(lambda k: 0 <= k < len(self._stack) and has_key(self._stack[k], '@layer') "
                 "and dict_value(self._stack[k], '@layer') == dict_value(kwargs, 'layer'))")
TC = CLIST % "old(cl_target(self, kwargs))"
contract(R + "Context.add_cleanup", props=P,
         params={"self": "ref:Context", "cleanup_func": "ref:function", "args": "tuple:any", "kwargs": "dict"},
         self_classes=["Context"],
         callsites={"self._select_stack_frame_by_layer": "abs:Context._select_stack_frame_by_layer"},
         requires={"a-scope-is-open": "len(self._stack) >= 1",
                   "every-scope-has-a-cleanup-list":
                       "forall(lambda k: implies(0 <= k < len(self._stack), has_key(self._stack[k], '@cleanups') and "
                       "has_kind(dict_value(self._stack[k], '@cleanups'), 'list')))",
                   "scopes-do-not-share-cleanup-lists":
                       "forall(lambda a, b: implies(0 <= a < b and b < len(self._stack), "
                       "dict_value(self._stack[a], '@cleanups') is not dict_value(self._stack[b], '@cleanups')))",
                   "the-scope-stack-is-not-a-cleanup-list":
                       "forall(lambda k: implies(0 <= k < len(self._stack), dict_value(self._stack[k], '@cleanups') is not self._stack))",
                   "the-keyword-dictionary-is-the-call's-own": "forall(lambda k: implies(0 <= k < len(self._stack), self._stack[k] is not kwargs))",
                   "a-layer-name-is-a-string-or-none": "implies(has_key(kwargs, 'layer'), is_none(dict_value(kwargs, 'layer')) or "
                                                       "has_kind(dict_value(kwargs, 'layer'), 'str'))",
                   "a-callable-is-registered": "uf_bool('is_callable', cleanup_func)"},
         modifies=["lists", "dict(kwargs)"],
         raises=[Raises("LookupError", when="%s and %s" % (HAS_LAYER, NO_SUCH_LAYER), label="unknown-layer-name")],
         ensures={
             "registered-at-the-end-of-the-target-scope's-list-unless-already-there":
                 "implies(not exists(lambda k: 0 <= k < old(len(%(c)s)) and old(%(c)s[k]) == cleanup_func), "
                 "len(%(c)s) == old(len(%(c)s)) + 1)" % {"c": TC},
             "plain-registration-stores-the-function-itself":
                 "implies(len(args) == 0 and old(len(kwargs)) == (1 if old(has_key(kwargs, 'layer')) else 0) and "
                 "not exists(lambda k: 0 <= k < old(len(%(c)s)) and old(%(c)s[k]) == cleanup_func), "
                 "%(c)s[len(%(c)s) - 1] == cleanup_func)" % {"c": TC},
             "duplicate-plain-registration-in-the-target-scope-ignored":
                 "implies(exists(lambda k: 0 <= k < old(len(%(c)s)) and old(%(c)s[k]) == cleanup_func), "
                 "len(%(c)s) == old(len(%(c)s)))" % {"c": TC},
             "earlier-registrations-kept-in-order":
                 "forall(lambda k: implies(0 <= k < old(len(%(c)s)), %(c)s[k] == old(%(c)s[k])))" % {"c": TC},
             "no-other-scope's-cleanup-list-changes":
                 "forall(lambda j: implies(0 <= j < len(self._stack) and self._stack[j] is not old(cl_target(self, kwargs)), "
                 "len(%(o)s) == old(len(%(o)s)) and forall(lambda k: implies(0 <= k < len(%(o)s), %(o)s[k] == old(%(o)s[k])))))"
                 % {"o": CLIST % "self._stack[j]"},
         },
         doc="old(cl_target(self, kwargs)) = the innermost scope named by layer= when a (truthy) layer is given, else the current scope; "
             "which scope a name denotes is _select_stack_frame_by_layer's own contract (proved above)")

# -- generator fixtures: the teardown part is registered before the setup part runs -------------------------------------
FX = "behave.fixture:"
ghost("fx_n", "int")
ghost("fx_kind", "array")
oracle("fx_is_generator", ["val"], "bool")
oracle("fx_setup_raises", ["val", "int"], "bool")
oracle("fx_setup_result", ["val", "int"], "val")
contract("abs:is_context_manager", trusted=True, pos_params=["func"], pure=True, result="bool",
         ensures={"value": "result == fx_is_generator(func)"}, doc="is the fixture function a generator function (inspect: A-lib)")
contract("user:fixture_func", trusted=True, pos_params=["callee", "context"], vararg="a", kwarg="kw", pure=True, result="any",
         doc="calling a generator fixture function creates the generator object and runs nothing yet; a plain fixture function "
             "runs its setup (A-user)")
contract("abs:Context.add_cleanup.fixture", trusted=True, pos_params=["self", "cleanup_func"], modifies=["G_fx_n", "G_fx_kind", "lists"],
         ghost_stores=[("fx_kind", "G_fx_n", "'register-teardown'")], ensures={"logged": "G_fx_n == old(G_fx_n) + 1"},
         doc="context.add_cleanup(cleanup_fixture): proved contract of Context.add_cleanup above; here only the order of events")
contract("user:fixture_setup_part", trusted=True, pos_params=["it"], modifies=["G_fx_n", "G_fx_kind"],
         ghost_stores=[("fx_kind", "G_fx_n", "'setup-part'")],
         raises=[Raises("Exception", when="fx_setup_raises(it, G_fx_n)", ensures={"logged": "G_fx_n == old(G_fx_n) + 1"})],
         ensures={"logged": "G_fx_n == old(G_fx_n) + 1 and result == fx_setup_result(it, old(G_fx_n))"}, result="any",
         doc="next(generator): runs the setup part up to the yield; may raise (A-user)")
N0F = "old(G_fx_n)"
contract(FX + "_setup_fixture", props=P, params={"fixture_func": "any", "context": "ref:Context", "fixture_args": "tuple:any", "fixture_kwargs": "dict"},
         callsites={"is_context_manager": "abs:is_context_manager", "fixture_func": "user:fixture_func",
                    "context.add_cleanup": "abs:Context.add_cleanup.fixture", "next": "user:fixture_setup_part"},
         modifies=["G_fx_n", "G_fx_kind", "lists"],
         raises=[Raises("Exception", when=None, label="the-setup-part-raised",
                        ensures={"the-teardown-part-was-registered-before-the-setup-part-ran":
                                 "implies(fx_is_generator(fixture_func), G_fx_n == %s + 2 and G_fx_kind(%s) == 'register-teardown' "
                                 "and G_fx_kind(%s + 1) == 'setup-part')" % (N0F, N0F, N0F)})],
         ensures={"the-teardown-part-is-registered-before-the-setup-part-runs":
                  "implies(fx_is_generator(fixture_func), G_fx_n == %s + 2 and G_fx_kind(%s) == 'register-teardown' "
                  "and G_fx_kind(%s + 1) == 'setup-part')" % (N0F, N0F, N0F),
                  "a-plain-fixture-function-registers-nothing": "implies(not fx_is_generator(fixture_func), G_fx_n == %s)" % N0F},
         doc="registration first: cleanups the setup part registers itself (nested fixtures, add_cleanup) are then newer than "
             "the fixture's own teardown, so the reverse-order rule runs them first; and the teardown is in place when the "
             "setup part raises half-way")

prop("C13", level="proof", bounded=[],
     explanation="proved on the real Context methods: attribute lookup returns the value of the innermost open scope that has "
                 "the key and raises AttributeError iff none has it; `in` likewise; deletion removes the key from the current "
                 "scope only (outer scopes outside the frame) and raises if it is not set there; assignment of a public name stores "
                 "the value in the current scope only, keeps its other names and the scope stack, and alters no outer scope (the "
                 "masking loop over the outer scopes writes nothing: per-iteration frame), so an outer layer's value is visible "
                 "again after the inner scope is popped; _push adds a fresh scope "
                 "holding only its bookkeeping keys and keeps the outer scopes in order; _pop removes exactly the innermost "
                 "scope on normal AND exceptional exit of the cleanups; _do_cleanups calls every registered function exactly "
                 "once in reverse registration order even when some raise, and raises iff one raised (and failing is on); "
                 "add_cleanup appends to the list of the target scope -- the current one, or with layer= the innermost scope of that "
                 "name (LookupError if there is none) -- unless already registered there, and changes no other scope's list; layer lookup finds the innermost "
                 "scope of that name. Scope balance of every run method and 'raising cleanup fails the element and the run' "
                 "are proved over the abstract Context in the run-method contracts. Bounded: the text of masking warnings and "
                 "private ('_x') names of __setattr__, use_fixture's composition of fixtures, execute_steps, whole operation histories; _setup_fixture "
                 "registers the teardown part of a generator fixture before its setup part runs (also when the setup part raises)",
     technique="contract-based deductive verification (own VC generator over the real ASTs, z3/cvc5) of the Context methods "
               "and of scope balance in the run methods; bounded model-based histories for the rest",
     notes=_RUN_NOTES + ["user cleanups are assumed not to push/pop scopes or edit the cleanup list they are run from (A-user)",
            "correspondence between the abstract Context of the run-method contracts (depth counter, visible scenario/rule/"
            "feature) and the concrete stack view is by the clause-by-clause reading given in contracts/c13_context.py, "
            "not machine-checked"])
