# -*- coding: utf-8 -*-
"""Field shapes (DESIGN.md 4.1), derived from __init__/reset and call sites.
Every store to a declared field inside a verified function generates a
`shape` obligation, so the declared types are invariants of the verified code
(A-shape covers writers that are not under contract)."""
from pyvc.contracts import shape, virtual_class

virtual_class("RunItem", bases=["TagAndStatusStatement"],
              members=["Rule", "Scenario", "ScenarioOutline"])

shape("BasicStatement", keyword="str", name="str", captured="any", exception="any",
      exc_traceback="any", error_message="opt:str", location="any")
shape("TagAndStatusStatement", parent="opt:ref:TagAndStatusStatement", tags="seq:str",
      should_skip="bool", skip_reason="opt:str", _cached_status="Status")
shape("ScenarioContainer", description="any", hook_failed="bool", run_starttime="any",
      run_endtime="any", run_items="seq:ref:RunItem", scenarios="seq:ref:Scenario",
      background="opt:ref:Background")
shape("Feature", rules="seq:ref:Rule", language="any", parser="any")
shape("Rule", feature="opt:ref:Feature", _use_background_inheritance="bool")
shape("Background", description="any", steps="seq:ref:Step",
      inherited_background="opt:ref:Background", _inherited_steps="opt:seq:ref:Step",
      _use_inheritance="bool")
# continue_after_failed_step: class-level default False, but users set it per scenario (or on the class) in hooks:
# declared as an instance field so that both modes are analysed
shape("Scenario", continue_after_failed_step="bool", description="any", steps="seq:ref:Step", background="opt:ref:Background",
      feature="opt:ref:Feature", hook_failed="bool", _background_steps="opt:seq:ref:Step",
      _use_background="bool", _row="opt:ref:Row", was_dry_run="any")
shape("ScenarioOutline", examples="seq:ref:Examples", _scenarios="seq:ref:Scenario")
shape("Examples", tags="seq:str", table="opt:ref:Table", index="opt:int")
shape("Step", step_type="str", text="any", table="opt:ref:Table", status="Status",
      hook_failed="bool", duration="any")
shape("Table", headings="seq:str", rows="seq:ref:Row", line="int", modified="bool")
shape("Row", headings="seq:str", cells="seq:str", line="opt:int", comments="any",
      id="opt:str", index="opt:int")
