# -*- coding: utf-8 -*-
"""pyvc.stmts -- statement execution, loops, exceptions, spec evaluation."""
import ast
import z3

from .engine import SV, State, Acc, Undecided, POISON, CONTAINER_CLASSES, _same

BUILTIN_EXCEPTIONS = [
    "BaseException", "Exception", "AssertionError", "KeyboardInterrupt", "SystemExit",
    "ValueError", "KeyError", "IndexError", "LookupError", "AttributeError", "TypeError",
    "RuntimeError", "NotImplementedError", "StopIteration", "OSError", "IOError",
    "ImportError", "ArithmeticError", "ZeroDivisionError", "UnicodeError", "NameError",
    "GeneratorExit", "UnicodeDecodeError", "UnicodeEncodeError", "EnvironmentError",
]
MUTATING_CONTAINER_METHODS = {"append", "extend", "insert", "pop", "add", "update", "setdefault",
                              "remove", "clear", "sort", "reverse", "discard", "popitem"}


class StmtMixin(object):

    # ------------------------------------------------------------------
    def exec_block(self, stmts, st, acc):
        for s in stmts:
            if st is None:
                return None
            st = self.exec_stmt(s, st, acc)
        return st

    cur_line = 0

    def exec_stmt(self, node, st, acc):
        self.cur_line = getattr(node, "lineno", self.cur_line)
        m = getattr(self, "s_" + type(node).__name__, None)
        if m is None:
            raise Undecided("statement %s" % type(node).__name__)
        return m(node, st, acc)

    def s_Pass(self, node, st, acc):
        return st

    def s_Import(self, node, st, acc):
        return st

    def s_ImportFrom(self, node, st, acc):
        """function-local `from m import a, b`: names the engine can resolve (behave functions/classes, contract
        globals) keep that meaning; any other name is an opaque imported object."""
        for al in node.names:
            name = al.asname or al.name
            try:
                self.global_name(name, st)
            except Undecided:
                st.env[name] = SV(self.u.fresh_val("imported_" + name))
        return st


    def s_Global(self, node, st, acc):
        raise Undecided("global statement")

    def s_Expr(self, node, st, acc):
        if isinstance(node.value, ast.Constant):
            return st       # docstring
        st, _ = self.eval(node.value, st, acc)
        return st

    def s_Assign(self, node, st, acc):
        st, v = self.eval(node.value, st, acc)
        for t in node.targets:
            st = self.assign(st, t, v, acc)
        return st

    def s_AnnAssign(self, node, st, acc):
        if node.value is None:
            return st
        st, v = self.eval(node.value, st, acc)
        return self.assign(st, node.target, v, acc)

    def s_AugAssign(self, node, st, acc):
        load = ast.copy_location(_as_load(node.target), node.target)
        st, cur = self.eval(load, st, acc)
        st, rhs = self.eval(node.value, st, acc)
        if cur.kind == "ref" and cur.cls in ("list",) and isinstance(node.op, ast.Add):
            # in-place list extension
            st, _ = self.container_method(st, acc, cur, "extend", [rhs], {}, node)
            return st
        st, v = self.binop(st, node.op, cur, rhs, acc, node)
        return self.assign(st, node.target, v, acc)

    def assign(self, st, target, value, acc):
        if isinstance(target, ast.Name):
            return self.bind_target(st, target, value, acc)     # (declared local types are applied there)
        if isinstance(target, (ast.Tuple, ast.List)):
            return self.bind_target(st, target, value, acc)
        if isinstance(target, ast.Attribute):
            st, obj = self.eval(target.value, st, acc)
            return self.set_attr(st, acc, obj, target.attr, value, target)
        if isinstance(target, ast.Subscript):
            st, obj = self.eval(target.value, st, acc)
            if isinstance(target.slice, ast.Slice):
                raise Undecided("slice assignment")
            st, idx = self.eval(target.slice, st, acc)
            return self.set_item(st, acc, obj, idx, value, target)
        raise Undecided("assignment target %s" % type(target).__name__)

    def bind_target(self, st, target, value, acc):
        if isinstance(target, ast.Name):
            cc_top = getattr(self, "cur_contract_top", None)
            declared = cc_top.locals.get(target.id) if (cc_top is not None and cc_top.locals and not self.in_spec) else None
            if declared is not None and value is not POISON and getattr(value, "z", None) is not None \
                    and value.kind is None and value.cls is None and self.cur_fid == self.cur_fid_top:
                # declared local type (contract option `locals`): a checked cast of a value of unknown static type
                ok = self.type_pred(value.z, declared, positive=False)
                self.oblige(st, "type", self.auto_label(target, "local"), ok,
                            note="local %s holds a %s (declared in the contract)" % (target.id, declared))
                st.assume(ok)
                value = self.typed(value.z, declared)
            st.env[target.id] = value
            return st
        if isinstance(target, (ast.Tuple, ast.List)):
            n = len(target.elts)
            if value.kind == "pytuple":
                if len(value.py) != n:
                    raise Undecided("unpacking arity")
                for t, v in zip(target.elts, value.py):
                    st = self.bind_target(st, t, v, acc)
                return st
            if value.kind == "ref" and value.cls in ("list", "tuple"):
                ln = self.seq_len(st, value)
                if not self.in_spec:
                    self.oblige(st, "index", self.auto_label(target, "unpack"), ln == n,
                                note="unpacking %d values" % n)
                st.assume(ln == n)
                for k, t in enumerate(target.elts):
                    st = self.bind_target(st, t, self.seq_get(st, value, z3.IntVal(k)), acc)
                return st
            if value.z is not None and value.kind is None:
                # unknown object assumed to be a tuple of the right arity (A-shape)
                u = self.u
                st.assume(u.is_R(value.z))
                tv = SV(value.z, "ref", cls="tuple")
                st.assume(self.seq_len(st, tv) == n)
                for k, t in enumerate(target.elts):
                    st = self.bind_target(st, t, self.seq_get(st, tv, z3.IntVal(k)), acc)
                return st
            raise Undecided("unpacking %r" % (value,))
        return self.assign(st, target, value, acc)

    def set_attr(self, st, acc, obj, attr, value, node):
        u = self.u
        if obj.z is None:
            raise Undecided("attribute store on %r" % (obj,))
        if obj.kind != "ref":
            if obj.kind in ("int", "bool", "str", "enum", "float", "none"):
                if obj.kind == "none":
                    self.oblige(st, "deref", self.auto_label(node, "deref"), z3.BoolVal(False),
                                note="attribute store .%s on None" % attr)
                    st.assume(z3.BoolVal(False))
                    return st
                raise Undecided("attribute store on %s" % obj.kind)
            self.oblige(st, "deref", self.auto_label(node, "deref"),
                        u.is_R(obj.z),
                        note="receiver of .%s= is an object (not None)" % attr)
            st.assume(u.is_R(obj.z))
            obj = SV(obj.z, "ref", cls=obj.cls, elem=obj.elem)
        cls = obj.cls
        if cls is None:
            duck = self.duck_class(attr)
            if duck is None:
                raise Undecided("attribute store .%s on object of unknown class" % attr)
            self.assumptions_used.add("A-duck: receiver of .%s is a %s" % (attr, duck))
            obj = SV(obj.z, "ref", cls=duck, elem=obj.elem)
            cls = duck
        if cls is not None and cls not in CONTAINER_CLASSES:
            owner, prop = self.src.lookup_property(cls, attr)
            if owner is not None:
                getter, setter = prop
                if setter is None:
                    raise Undecided("store to read-only property %s.%s" % (cls, attr))
                fid = "%s.setter" % self.fid(owner, attr)
                st, _ = self.call_fid(st, acc, fid, obj, [value], {}, node)
                return st
            owner, fn = self.src.lookup_method(cls, "__setattr__")
            if owner is not None and not (self.cur_fid or "").endswith(".__setattr__"):
                st, _ = self.call_method(st, acc, obj, "__setattr__", [self.mk_str(attr), value], {}, node)
                return st
        self.write_field(st, obj, attr, self.box(st, value))
        return st

    def set_item(self, st, acc, obj, idx, value, node):
        u = self.u
        value = self.box(st, value)
        if obj.kind != "ref":
            if obj.z is None:
                raise Undecided("item store on %r" % (obj,))
            self.oblige(st, "deref", self.auto_label(node, "deref"), u.is_R(obj.z),
                        note="subscripted target is an object")
            st.assume(u.is_R(obj.z))
            obj = SV(obj.z, "ref", cls=obj.cls, elem=obj.elem)
        if obj.cls == "list":
            r = self.as_ref(obj)
            zi = self.as_int(idx)
            n = self.seq_len(st, obj)
            self.index_check(st, acc, z3.And(zi < n, zi >= -n), node, "list store index in range")
            real = z3.If(zi < 0, zi + n, zi)
            el = self.heap_array(st, "$at")[r]
            st.heap["$at"] = z3.Store(st.heap["$at"], r, z3.Store(el, real, value.z))
            return st
        if obj.cls == "dict":
            self.dict_set(st, obj, self.box(st, idx), value)
            return st
        if obj.cls is not None and obj.cls not in CONTAINER_CLASSES:
            owner, fn = self.src.lookup_method(obj.cls, "__setitem__")
            if owner:
                st, _ = self.call_method(st, acc, obj, "__setitem__", [idx, value], {}, node)
                return st
        raise Undecided("item store on %s" % obj.cls)

    def s_Delete(self, node, st, acc):
        for t in node.targets:
            if isinstance(t, ast.Name):
                st.env.pop(t.id, None)
            elif isinstance(t, ast.Subscript):
                st, obj = self.eval(t.value, st, acc)
                st, idx = self.eval(t.slice, st, acc)
                st = self.del_item(st, acc, obj, idx, t)
            elif isinstance(t, ast.Attribute):
                st, obj = self.eval(t.value, st, acc)
                if obj.kind == "ref" and obj.cls and self.src.lookup_method(obj.cls, "__delattr__")[0]:
                    st, _ = self.call_method(st, acc, obj, "__delattr__", [self.mk_str(t.attr)], {}, t)
                else:
                    raise Undecided("del x.attr")
            else:
                raise Undecided("del target")
        return st

    def del_item(self, st, acc, obj, idx, node):
        u = self.u
        if obj.kind == "ref" and obj.cls == "dict":
            st, _ = self.container_method(st, acc, obj, "pop", [idx], {}, node)
            return st
        if obj.kind == "ref" and obj.cls == "list":
            r = self.as_ref(obj)
            n = self.seq_len(st, obj)
            zi = self.as_int(idx)
            self.index_check(st, acc, z3.And(0 <= zi, zi < n), node, "del index in range")
            old = self.heap_array(st, "$at")[r]
            new = u.fresh("del", u.ElemsSort)
            k = u.fresh_int("k")
            st.assume(z3.ForAll([k], z3.Implies(z3.And(0 <= k, k < zi), new[k] == old[k])))
            st.assume(z3.ForAll([k], z3.Implies(z3.And(zi <= k, k < n - 1), new[k] == old[k + 1])))
            st.heap["$at"] = z3.Store(st.heap["$at"], r, new)
            st.heap["$len"] = z3.Store(st.heap["$len"], r, n - 1)
            return st
        raise Undecided("del item on %r" % (obj,))

    # ------------------------------------------------------------------
    def s_If(self, node, st, acc):
        st, c = self.eval(node.test, st, acc)
        t = z3.simplify(self.truthy(c, st))
        if z3.is_true(t):
            return self.exec_block(node.body, st, acc)
        if z3.is_false(t):
            return self.exec_block(node.orelse, st, acc)
        s1 = st.copy()
        s1.assume(t)
        self.refine_isinstance(node.test, s1, True)
        s1 = self.exec_branch(node.body, s1, acc)
        s2 = st
        s2.assume(z3.Not(t))
        self.refine_isinstance(node.test, s2, False)
        s2 = self.exec_branch(node.orelse, s2, acc)
        return self.merge([s1, s2])

    def exec_branch(self, body, st, acc):
        """Execute one branch of an `if`.  A construct outside the supported subset makes the function undecided --
        unless the branch is provably unreachable under the contracts (then it is dropped: sound)."""
        probe = st.copy()
        try:
            return self.exec_block(body, st, acc)
        except Undecided:
            if self.branch_is_dead(probe):
                self.assumptions_used.add("dead-branch-with-unsupported-code-dropped")
                return None
            raise

    def branch_is_dead(self, st):
        from .engine import _has_quantifier
        s = z3.Solver()
        s.set("timeout", 3000)
        for ax in self.u.literal_axioms():
            s.add(ax)
        for f in st.pc:
            if not _has_quantifier(f):
                s.add(f)
        return s.check() == z3.unsat

    def refine_isinstance(self, test, st, positive):
        """Flow-sensitive static class after `isinstance(x, C)` / `x is None` tests (locals only)."""
        if isinstance(test, ast.UnaryOp) and isinstance(test.op, ast.Not):
            return self.refine_isinstance(test.operand, st, not positive)
        if isinstance(test, ast.BoolOp) and isinstance(test.op, ast.And) and positive:
            for v in test.values:
                self.refine_isinstance(v, st, True)
            return
        if positive and isinstance(test, ast.Call) and isinstance(test.func, ast.Name) \
                and test.func.id == "isinstance" and len(test.args) == 2 and isinstance(test.args[0], ast.Name) \
                and ast.unparse(test.args[1]) in ("six.string_types", "six.text_type", "str"):
            v = st.env.get(test.args[0].id)
            if v is not None and v is not POISON and v.z is not None and v.kind is None:
                self.retype_aliases(st, v, lambda z: SV(z, "str"))
            return
        if positive and isinstance(test, ast.Call) and isinstance(test.func, ast.Name) \
                and test.func.id == "isinstance" and len(test.args) == 2 and isinstance(test.args[0], ast.Name) \
                and ast.unparse(test.args[1]) in ("(list, tuple)", "(tuple, list)", "list", "tuple"):
            # a sequence object: iteration / len / indexing read the sequence arrays (same for list and tuple)
            v = st.env.get(test.args[0].id)
            if v is not None and v is not POISON and v.z is not None and v.kind is None and v.cls is None:
                cls = "tuple" if ast.unparse(test.args[1]) == "tuple" else "list"
                self.retype_aliases(st, v, lambda z: SV(z, "ref", cls=cls))
            return
        if positive and isinstance(test, ast.Call) and isinstance(test.func, ast.Name) \
                and test.func.id == "isinstance" and len(test.args) == 2 \
                and isinstance(test.args[0], ast.Name) and isinstance(test.args[1], ast.Name):
            name, cname = test.args[0].id, test.args[1].id
            v = st.env.get(name)
            if v is not None and v is not POISON and v.z is not None and cname in self.src.classes \
                    and cname not in self.u.enum_classes:
                if v.cls is None or self.src.is_subclass(cname, v.cls) or v.cls in self.src.virtual:
                    st.env[name] = SV(v.z, "ref", cls=cname, elem=v.elem)
        if isinstance(test, ast.Compare) and len(test.ops) == 1 and isinstance(test.left, ast.Name) \
                and isinstance(test.comparators[0], ast.Constant) and test.comparators[0].value is None:
            name = test.left.id
            v = st.env.get(name)
            is_none_branch = (isinstance(test.ops[0], ast.Is) and positive) or \
                             (isinstance(test.ops[0], ast.IsNot) and not positive)
            if v is not None and v is not POISON and v.z is not None and v.kind is None and not is_none_branch \
                    and v.extra and v.extra[0] == "opt" and v.extra[1]:
                st.env[name] = self.typed(v.z, v.extra[1])

    def retype_aliases(self, st, v, mk):
        """Give every untyped local that holds the very same term as v the refined static type."""
        for name, w in list(st.env.items()):
            if w is not None and w is not POISON and getattr(w, "z", None) is not None and w.kind is None \
                    and w.cls is None and w.z.eq(v.z):
                st.env[name] = mk(w.z)

    def s_Return(self, node, st, acc):
        if node.value is None:
            v = self.mk_none()
        else:
            st, v = self.eval(node.value, st, acc)
        acc.returns.append((st, v))
        return None

    def s_Break(self, node, st, acc):
        acc.breaks.append(st)
        return None

    def s_Continue(self, node, st, acc):
        acc.continues.append(st)
        return None

    def s_Assert(self, node, st, acc):
        st, c = self.eval(node.test, st, acc)
        t = self.truthy(c, st)
        cc = self.cur_contract
        if cc is not None and cc.assert_raises:
            bad = st.copy()
            bad.assume(z3.Not(t))
            acc.raises.append((bad, self.alloc(bad, "AssertionError")))
        else:
            self.oblige(st, "assert", self.auto_label(node, "assert"), t,
                        note="assert %s" % ast.unparse(node.test)[:80])
        st.assume(t)
        return st

    def s_Raise(self, node, st, acc):
        if node.exc is None:
            if not self.handling:
                raise Undecided("bare raise outside handler")
            acc.raises.append((st, self.handling[-1]))
            return None
        st, e = self.eval(node.exc, st, acc)
        if e.kind == "class":
            e = self.alloc(st, e.py)
        if e.kind != "ref" and e.z is None:
            raise Undecided("raise of %r" % (e,))
        acc.raises.append((st, e))
        return None

    handling = []

    def s_FunctionDef(self, node, st, acc):
        # a nested function is a new function object (it can be stored, compared by identity, merged)
        obj = self.alloc(st, "function")
        st.env[node.name] = SV(obj.z, "callable", cls="function", py=("closure", node.name, node))
        return st

    def s_ClassDef(self, node, st, acc):
        st.env[node.name] = SV(None, "callable", py=("localclass", node.name))
        return st

    # ------------------------------------------------------------------
    def exc_class_test(self, exc, spec_sv):
        return self.isinstance_formula(None, exc, spec_sv)

    def s_Try(self, node, st, acc):
        pend = Acc()            # outcomes that still have to pass `finally`
        normal_ends = []
        body_acc = Acc()
        end = self.exec_block(node.body, st.copy(), body_acc)
        pend.returns += body_acc.returns
        pend.breaks += body_acc.breaks
        pend.continues += body_acc.continues
        if end is not None:
            if node.orelse:
                end = self.exec_block(node.orelse, end, pend)
            if end is not None:
                normal_ends.append(end)
        if body_acc.raises:
            if node.handlers:
                states = [s for s, _ in body_acc.raises]
                excs = [e for _, e in body_acc.raises]
                if len(states) == 1:
                    xs, exc = states[0], excs[0]
                else:
                    xs, tails = self.merge_with_tails(states)
                    exc = self.merge_values(excs, tails)
                    if exc is POISON:
                        raise Undecided("exceptions cannot be merged")
                    if exc.kind != "ref":
                        exc = SV(exc.z, "ref", cls=exc.cls)
                remaining = xs
                for h in node.handlers:
                    if remaining is None:
                        break
                    if h.type is None:
                        cond = z3.BoolVal(True)
                    else:
                        _, spec = self.eval(h.type, remaining, pend)
                        cond = z3.simplify(self.exc_class_test(exc, spec))
                    if z3.is_false(cond):
                        continue
                    hs = remaining.copy()
                    hs.assume(cond)
                    if h.name:
                        hcls = exc.cls
                        if isinstance(h.type, ast.Name):
                            hcls = h.type.id
                        hs.env[h.name] = SV(exc.z, "ref", cls=hcls)
                    self.handling.append(exc)
                    try:
                        hend = self.exec_block(h.body, hs, pend)
                    finally:
                        self.handling.pop()
                    if hend is not None:
                        if h.name:
                            hend.env.pop(h.name, None)
                        normal_ends.append(hend)
                    if z3.is_true(cond):
                        remaining = None
                    else:
                        remaining.assume(z3.Not(cond))
                if remaining is not None:
                    pend.raises.append((remaining, exc))
            else:
                pend.raises += body_acc.raises
        if not node.finalbody:
            acc.returns += pend.returns
            acc.raises += pend.raises
            acc.breaks += pend.breaks
            acc.continues += pend.continues
            return self.merge(normal_ends)
        # finally: run on every kind of outcome
        out = None
        if normal_ends:
            out = self.exec_block(node.finalbody, self.merge(normal_ends), acc)
        for s, v in pend.returns:
            e2 = self.exec_block(node.finalbody, s, acc)
            if e2 is not None:
                acc.returns.append((e2, v))
        for s, e in pend.raises:
            e2 = self.exec_block(node.finalbody, s, acc)
            if e2 is not None:
                acc.raises.append((e2, e))
        for s in pend.breaks:
            e2 = self.exec_block(node.finalbody, s, acc)
            if e2 is not None:
                acc.breaks.append(e2)
        for s in pend.continues:
            e2 = self.exec_block(node.finalbody, s, acc)
            if e2 is not None:
                acc.continues.append(e2)
        return out

    # ------------------------------------------------------------------
    def s_With(self, node, st, acc):
        c = self.cur_contract
        if len(node.items) != 1:
            raise Undecided("with: several items")
        item = node.items[0]
        text = ast.unparse(item.context_expr)
        spec = c.with_items.get(text) if c is not None else None
        if spec is None:
            raise Undecided("with %s: no context-manager contract" % text)
        enter_id, exit_id = spec
        enter_state = st.copy()
        if enter_id:
            st, v = self.apply_contract(st, acc, self.get_contract(enter_id), None, None, [], {}, node)
            if item.optional_vars is not None:
                st = self.assign(st, item.optional_vars, v, acc)
        inner = Acc()
        self.with_stack.append(enter_state)
        try:
            end = self.exec_block(node.body, st, inner)
        finally:
            self.with_stack.pop()

        def leave(s):
            if exit_id:
                self.with_stack.append(enter_state)
                try:
                    saved_env = s.env
                    s, _ = self.apply_contract(s, acc, self.get_contract(exit_id), None, None, [], {}, node)
                    s.env = saved_env
                finally:
                    self.with_stack.pop()
            return s
        for s, v in inner.returns:
            acc.returns.append((leave(s), v))
        for s, e in inner.raises:
            acc.raises.append((leave(s), e))
        for s in inner.breaks:
            acc.breaks.append(leave(s))
        for s in inner.continues:
            acc.continues.append(leave(s))
        return leave(end) if end is not None else None

    with_stack = []

    # ------------------------------------------------------------------
    # loops
    def loop_spec(self, node):
        c = self.cur_contract
        key = (self.cur_fid, id(node))
        ordn = self.loop_ordinals.get(key)
        if ordn is None:
            # compute ordinals for the current function lazily
            fn = self.src.function(self.cur_fid)
            k = 0
            for sub in _walk_in_order(fn):
                if isinstance(sub, (ast.For, ast.While)):
                    self.loop_ordinals[(self.cur_fid, id(sub))] = k
                    k += 1
            ordn = self.loop_ordinals.get(key)
        if c is None or ordn is None or ordn >= len(c.loops):
            return ordn, None
        return ordn, c.loops[ordn]

    loop_ordinals = {}

    def s_For(self, node, st, acc):
        if node.orelse:
            raise Undecided("for-else")
        ordn, spec = self.loop_spec(node)
        if spec is not None and spec.broadcast:
            return self.broadcast_loop(node, st, acc, ordn, spec)
        st, it = self.eval(node.iter, st, acc)
        # literal tuples: unroll (complete, the bound is in the code)
        if it.kind == "pytuple":
            return self.unroll(node, st, acc, [x for x in it.py])
        if it.kind == "range":
            args = [z3.simplify(self.as_int(a)) for a in it.py]
            if all(z3.is_int_value(a) for a in args):
                vals = list(range(*[a.as_long() for a in args]))
                if len(vals) <= 8:
                    return self.unroll(node, st, acc, [self.mk_int(v) for v in vals])
            raise Undecided("for over symbolic range")
        if it.kind == "zip":
            a, b = it.py
            if a.kind == "pytuple" and b.kind == "pytuple":
                return self.unroll(node, st, acc, [SV(None, "pytuple", py=(x, y)) for x, y in zip(a.py, b.py)])
        if spec is not None and spec.unroll and it.kind == "ref":
            raise Undecided("unroll of symbolic sequence")
        elem_at, n = self.iteration_plan(st, acc, it, node)
        return self.run_loop(node, st, acc, ordn, spec, n, elem_at, cond_node=None)

    def broadcast_loop(self, node, st, acc, ordn, spec):
        """`for f in <formatters>: f.m(args)` (optionally through getattr(f, name, None) + truthiness
        guard): every element of the list receives the same call.  Checked structurally on the
        real loop body, then summarised by ONE application of the broadcast contract."""
        if not isinstance(node.target, ast.Name):
            raise Undecided("broadcast loop target")
        var = node.target.id
        it_text = ast.unparse(node.iter)
        if it_text not in ("runner.formatters", "self.formatters", "self.config.reporters",
                           "runner.config.reporters"):
            raise Undecided("broadcast loop over %s" % it_text)
        calls = []
        aliases = set()
        inside_args = set()
        for sub in ast.walk(ast.Module(body=node.body, type_ignores=[])):
            if isinstance(sub, ast.Call):
                f0 = sub.func
                if (isinstance(f0, ast.Attribute) and isinstance(f0.value, ast.Name) and f0.value.id == var) \
                        or (isinstance(f0, ast.Name) and f0.id in aliases):
                    for a in list(sub.args) + [k.value for k in sub.keywords]:
                        for n3 in ast.walk(a):
                            inside_args.add(id(n3))
            if isinstance(sub, ast.Assign) and isinstance(sub.targets[0], ast.Name) \
                    and isinstance(sub.value, ast.Call) and isinstance(sub.value.func, ast.Name) \
                    and sub.value.func.id == "getattr":
                aliases.add(sub.targets[0].id)
        aliases_pre = set(aliases)
        aliases = set()
        for sub in ast.walk(ast.Module(body=node.body, type_ignores=[])):
            if id(sub) in inside_args:
                continue
            if isinstance(sub, (ast.Return, ast.Break, ast.Continue, ast.Raise, ast.For, ast.While,
                                ast.Try, ast.With, ast.AugAssign, ast.Delete)):
                raise Undecided("broadcast loop body has control flow")
            if isinstance(sub, ast.Assign):
                ok = len(sub.targets) == 1 and isinstance(sub.targets[0], ast.Name) \
                    and isinstance(sub.value, ast.Call) and isinstance(sub.value.func, ast.Name) \
                    and sub.value.func.id == "getattr" and isinstance(sub.value.args[0], ast.Name) \
                    and sub.value.args[0].id == var
                if not ok:
                    raise Undecided("broadcast loop body assigns something")
                aliases.add(sub.targets[0].id)
            if isinstance(sub, ast.Call):
                f = sub.func
                if isinstance(f, ast.Name) and f.id == "getattr":
                    continue
                if isinstance(f, ast.Attribute) and isinstance(f.value, ast.Name) and f.value.id == var:
                    calls.append((f.attr, sub))
                elif isinstance(f, ast.Name) and f.id in aliases_pre:
                    calls.append(("<callback>", sub))
                else:
                    raise Undecided("broadcast loop body calls %s" % ast.unparse(f))
            if isinstance(sub, ast.If):
                if not (isinstance(sub.test, ast.Name) and sub.test.id in aliases_pre and not sub.orelse):
                    raise Undecided("broadcast loop body has a condition")
        plan = spec.broadcast if isinstance(spec.broadcast, list) else [spec.broadcast]
        if len(calls) != len(plan):
            raise Undecided("broadcast loop body must contain exactly %d call(s)" % len(plan))
        calls.sort(key=lambda c: (c[1].lineno, c[1].col_offset))
        for (mname, call), (cid, expect) in zip(calls, plan):
            if expect is not None and mname != expect:
                raise Undecided("broadcast loop calls %s, contract expects %s" % (mname, expect))
            for a in list(call.args) + [k.value for k in call.keywords]:
                for n2 in ast.walk(a):
                    if isinstance(n2, ast.Name) and (n2.id == var or n2.id in aliases):
                        raise Undecided("broadcast argument depends on the loop variable")
        for (mname, call), (cid, expect) in zip(calls, plan):
            st, args, kwargs = self.eval_args(call, st, acc)
            st, _ = self.apply_contract(st, acc, self.get_contract(cid), None, None, args, kwargs, node)
        st.env.pop(var, None)
        for a in aliases:
            st.env.pop(a, None)
        self.assumptions_used.add("A-fmt")
        return st

    def unroll(self, node, st, acc, items):
        after = []
        for item in items:
            if st is None:
                break
            s = self.bind_target(st, node.target, item, acc)
            inner = Acc()
            end = self.exec_block(node.body, s, inner)
            acc.returns += inner.returns
            acc.raises += inner.raises
            after += inner.breaks
            st = self.merge([x for x in [end] + inner.continues if x is not None])
        return self.merge([x for x in [st] + after if x is not None])

    def iteration_plan(self, st, acc, it, node):
        """-> (elem_at(state, zindex) -> SV, length term)"""
        u = self.u
        if it.kind == "enumerate":
            inner_at, n = self.iteration_plan(st, acc, it.py, node)
            return (lambda s, k: SV(None, "pytuple", py=(self.mk_int(k), inner_at(s, k)))), n
        if it.kind == "reversed":
            inner_at, n = self.iteration_plan(st, acc, it.py, node)
            return (lambda s, k: inner_at(s, n - 1 - k)), n
        if it.kind == "zip":
            plans = [self.iteration_plan(st, acc, x, node) for x in it.py]
            n = plans[0][1]
            for _, m in plans[1:]:
                n = z3.If(m < n, m, n)
            return (lambda s, k: SV(None, "pytuple", py=tuple(p[0](s, k) for p in plans))), n
        if it.kind == "dictview":
            what, d = it.py
            r = self.as_ref(d)
            keys = SV(d.z, "ref", cls="dictkeys")
            n = self.seq_len(st, keys)
            st.assume(n >= 0)
            ksnap = self.seq_elems(st, keys)

            def at(s, k):
                key = SV(ksnap(k))
                s.assume(z3.Implies(u.is_R(key.z), u.r(key.z) < s.alloc))
                if what == "keys":
                    return key
                val = SV(self.heap_array(s, "$val")[r][key.z])
                if what == "values":
                    return val
                return SV(None, "pytuple", py=(key, val))
            return at, n
        seq = self.iterable_to_seq(st, acc, it, node)
        n = self.seq_len(st, seq)
        st.assume(n >= 0)
        snapshot = self.seq_elems(st, seq)
        self.assumptions_used.add("A-iter")
        alloc_then = st.alloc

        def at(s, k):
            z = snapshot(k)
            sv = self.typed(z, seq.elem)
            if seq.elem and seq.elem != "any":
                s.assume(self.type_pred(z, seq.elem))
            if sv.kind in (None, "ref"):
                # the elements existed when the iteration started
                s.assume(z3.Implies(u.is_R(z), u.r(z) < alloc_then))
            return sv
        self._last_seq = seq
        return at, n

    def s_While(self, node, st, acc):
        if node.orelse:
            raise Undecided("while-else")
        ordn, spec = self.loop_spec(node)
        return self.run_loop(node, st, acc, ordn, spec, None, None, cond_node=node.test)

    def run_loop(self, node, st, acc, ordn, spec, n, elem_at, cond_node):
        u = self.u
        invs = spec.invariant if spec is not None else []
        is_for = cond_node is None
        pre = st.copy()
        self.loop_entry_stack.append(pre)
        try:
            return self._run_loop(node, st, acc, ordn, spec, n, elem_at, cond_node, invs, is_for, pre)
        finally:
            self.loop_entry_stack.pop()

    def _run_loop(self, node, st, acc, ordn, spec, n, elem_at, cond_node, invs, is_for, pre):
        u = self.u
        seqv = getattr(self, "_last_seq", None) if is_for else None

        def inv_env(s, zi):
            env = dict(s.env)
            if is_for:
                env["_i"] = self.mk_int(zi)
                env["_n"] = self.mk_int(n)
                if seqv is not None:
                    env["_seq"] = seqv
                env["_at"] = SV(None, "callable", py=("elem_at", elem_at))
            return env
        # loop-local ghost variables (witnesses; exist only in the contract)
        lghost = dict(spec.ghost) if spec is not None else {}
        for gname, (init, _upd) in sorted(lghost.items()):
            v, facts = self.spec_value(init, st, inv_env(st, z3.IntVal(0)), old=self.spec_entry())
            for f in facts:
                st.assume(f)
            st.env[gname] = v
        # 1. invariant holds on entry
        for label, text in invs:
            goal, facts = self.spec_formula(text, st, inv_env(st, z3.IntVal(0)), old=self.spec_entry())
            s2 = st.copy()
            for f in facts:
                s2.assume(f)
            self.oblige(s2, "inv-entry", "loop%s.%s" % (ordn, label), goal, note=text)
        # 2. havoc what the body may change
        names = _assigned_names(node.body)
        if is_for:
            names |= _target_names(node.target)
        names |= set(lghost)
        h = st
        for name in sorted(names):
            cur = h.env.get(name)
            if cur is None or cur is POISON:
                h.env.pop(name, None)
                continue
            cc_top = getattr(self, "cur_contract_top", None)
            declared = (cc_top.locals.get(name) if cc_top is not None else None)
            if declared is not None:
                # the contract declares the type of this local (e.g. "opt:tuple:any" for `selected = None ... = (a, b)`)
                z = u.fresh_val("loop_" + name)
                nv = self.typed(z, declared)
                h.assume(self.type_pred(z, declared))
                h.env[name] = nv
                continue
            if cur.z is None:
                if cur.kind in ("pytuple", "pylist") and name in _assigned_names(node.body):
                    # a python-side value (tuple literal) that the loop body re-assigns cannot keep its entry value
                    raise Undecided("loop re-assigns local %r holding a tuple: declare its type with locals={...}" % name)
                continue
            z = u.fresh_val("loop_" + name)
            if cur.kind in ("none", "sentinel"):
                # None (or a marker object) before the loop says nothing about later iterations
                nv = SV(z)
            else:
                nv = SV(z, cur.kind, cls=cur.cls, elem=cur.elem)
            if cur.kind in ("int", "bool", "str", "enum", "ref"):
                h.assume(self.kind_pred(nv))
            h.env[name] = nv
        if spec is not None and spec.modifies is not None:
            self.havoc(h, spec.modifies, pre.env, pre)
        else:
            if any(isinstance(x, (ast.Yield, ast.YieldFrom)) for x in ast.walk(node)):
                raise Undecided("a loop that yields needs an explicit `modifies` (with `yields`) in its Loop contract")
            fields, ghosts, containers = self.loop_effects(node, pre, n, elem_at, cond_node, names)
            for f in sorted(fields):
                self.heap_array(h, f)
                h.heap[f] = u.fresh("L_" + f, u.FieldSort)
            for g in sorted(ghosts):
                if g in h.ghost:
                    h.ghost[g] = u.fresh("Lg_" + g, h.ghost[g].sort())
            if containers:
                recv = containers if containers != "all" else None
                allowed = None
                if recv is not None:
                    allowed = []
                    for nm in recv:
                        v = pre.env.get(nm)
                        if v is None or v is POISON or v.kind != "ref" or nm in names:
                            allowed = None
                            break
                        allowed.append(self.as_ref(v))
                for key in ("$len", "$at", "$has", "$val", "$dlen", "$klen", "$kat"):
                    old_arr = self.heap_array(h, key)
                    new = u.fresh("L" + key.replace("$", "_"), old_arr.sort())
                    if allowed is not None:
                        r = u.fresh_int("r")
                        cond = z3.And([r != a for a in allowed] + [r < pre.alloc])
                        # local containers only: everything else keeps its content
                        h.assume(z3.ForAll([r], z3.Implies(cond, new[r] == old_arr[r])))
                    h.heap[key] = new
                if allowed is not None:
                    self.loop_local_containers.append((ordn, [str(a) for a in allowed]))
                    # soundness of this frame assumption: the receivers are fresh local
                    # containers or are listed; checked syntactically in effects_of.
        na = u.fresh_int("alloc")
        h.assume(na >= pre.alloc)
        h.alloc = na
        zi = None
        if is_for:
            zi = u.fresh_int("i")
            h.assume(z3.And(0 <= zi, zi <= n))
        for label, text in invs:
            f, facts = self.spec_formula(text, h, inv_env(h, zi), old=self.spec_entry())
            for x in facts:
                h.assume(x)
            h.assume(f)
        # 3. one arbitrary iteration
        body = h.copy()
        inner = Acc()
        if is_for:
            body.assume(zi < n)
            body = self.bind_target(body, node.target, elem_at(body, zi), acc)
        else:
            body, c = self.eval(cond_node, body, acc)
            body.assume(self.truthy(c, body))
        iter_start = body.copy()
        end = self.exec_block(node.body, body, inner)
        acc.returns += inner.returns
        acc.raises += inner.raises
        ends = [x for x in [end] + inner.continues if x is not None]
        if ends:
            e = self.merge(ends)
            nxt = (zi + 1) if is_for else None
            if lghost:
                self.iter_start_stack.append(iter_start)
                try:
                    newvals = {}
                    for gname, (_init, upd) in sorted(lghost.items()):
                        v, facts = self.spec_value(upd, e, inv_env(e, zi), old=self.spec_entry())
                        for f in facts:
                            e.assume(f)
                        newvals[gname] = v
                    e.env.update(newvals)
                finally:
                    self.iter_start_stack.pop()
            for label, text in invs:
                goal, facts = self.spec_formula(text, e, inv_env(e, nxt), old=self.spec_entry())
                s2 = e.copy()
                for f in facts:
                    s2.assume(f)
                self.oblige(s2, "inv-preserve", "loop%s.%s" % (ordn, label), goal, note=text)
            # type stability of loop-carried locals
            for name in sorted(names):
                cur = h.env.get(name)
                new = e.env.get(name)
                if cur is None or new is None or new is POISON or cur.z is None or new.z is None:
                    continue
                if cur.kind in ("int", "bool", "str", "enum", "ref") and new.kind != cur.kind:
                    self.oblige(e, "inv-preserve", "loop%s.kind-of-%s" % (ordn, name),
                                self.kind_pred(SV(new.z, cur.kind, cls=cur.cls)),
                                note="loop-carried local keeps its kind")
            if spec is not None and spec.modifies is not None:
                self.check_frame(iter_start, e, spec.modifies, pre.env, pre, pre.alloc,
                                 "loop%s" % ordn)
        # 4. after the loop
        exit_state = h
        if is_for:
            exit_state.assume(zi == n)
        else:
            exit_state, c = self.eval(cond_node, exit_state, acc)
            exit_state.assume(z3.Not(self.truthy(c, exit_state)))
        return self.merge([exit_state] + inner.breaks)

    loop_local_containers = []

    def loop_effects(self, node, pre, n, elem_at, cond_node, names):
        """What one iteration may modify, found by a *dry* symbolic execution of
        the body from a state in which everything is unknown (no obligations are
        recorded).  Sound: every path of the body is explored."""
        u = self.u
        h = pre.copy()
        for name in sorted(names):
            cur = h.env.get(name)
            if cur is None or cur is POISON:
                h.env.pop(name, None)
            else:
                cc_top = getattr(self, "cur_contract_top", None)
                declared = (cc_top.locals.get(name) if cc_top is not None else None)
                if declared is not None:
                    h.env[name] = self.typed(u.fresh_val("dry_" + name), declared)
                elif cur.z is not None:
                    h.env[name] = SV(u.fresh_val("dry_" + name)) if cur.kind in ("none", "sentinel") else \
                        SV(u.fresh_val("dry_" + name), cur.kind, cls=cur.cls, elem=cur.elem)
        for key in list(h.heap):
            h.heap[key] = u.fresh("D" + key.replace("$", "_"), h.heap[key].sort())
        for g in list(h.ghost):
            h.ghost[g] = u.fresh("Dg_" + g, h.ghost[g].sort())
        na = u.fresh_int("alloc")
        h.assume(na >= pre.alloc)
        h.alloc = na
        start_heap = dict(h.heap)
        start_ghost = dict(h.ghost)
        saved = (self.obligations, self.suppress, dict(self._auto_counter))
        self.obligations = []
        self.suppress = True
        try:
            inner = Acc()
            body = h
            if cond_node is None:
                zi = u.fresh_int("i")
                body.assume(z3.And(0 <= zi, zi < n))
                body = self.bind_target(body, node.target, elem_at(body, zi), inner)
            else:
                body, c = self.eval(cond_node, body, inner)
            end = self.exec_block(node.body, body, inner)
        finally:
            self.obligations, self.suppress = saved[0], saved[1]
            self._auto_counter = saved[2]
        # only paths that reach the next iteration matter for the loop-head havoc: paths leaving the loop
        # (break / return / raise) carry their own state out of it in the real pass
        outs = [end] + inner.continues
        fields, ghosts = set(), set()
        cont = False
        for s in outs:
            if s is None:
                continue
            for key, arr in s.heap.items():
                base = start_heap.get(key)
                if base is None:
                    base = self.initial_heap_array(key)
                if not _same(arr, base):
                    if key.startswith("$"):
                        cont = True
                    else:
                        fields.add(key)
            for g, z in s.ghost.items():
                if not _same(z, start_ghost.get(g)):
                    ghosts.add(g)
        containers = set()
        if cont:
            _, _, containers = self.effects_of(node.body)
            if not containers:
                containers = "all"
        return fields, ghosts, containers

    suppress = False

    def kind_pred(self, sv):
        u = self.u
        if sv.kind == "int":
            return u.is_I(sv.z)
        if sv.kind == "bool":
            return u.is_B(sv.z)
        if sv.kind == "str":
            return u.is_S(sv.z)
        if sv.kind == "enum":
            return u.is_enum_of(sv.z, sv.cls)
        if sv.kind == "ref":
            if sv.cls:
                return z3.And(u.is_R(sv.z), u.r(sv.z) > 0, self.class_test(u.r(sv.z), sv.cls))
            return u.is_R(sv.z)
        return z3.BoolVal(True)

    def effects_of(self, body):
        """Syntactic over-approximation of what a block may modify:
        (field names, ghost names, container receivers: set of local names | 'all' | empty)."""
        fields, ghosts = set(), set()
        receivers = set()
        all_containers = [False]
        seen_fids = set()

        def add_contract(c):
            for m in c.modifies:
                if m.startswith("G_"):
                    ghosts.add(m[2:])
                elif m in ("lists", "dicts") or m.startswith(("list(", "dict(")):
                    all_containers[0] = True
                elif m.startswith("each("):
                    fields.add(m.split(").", 1)[1])
                elif m == "alloc":
                    pass
                else:
                    fields.add(m.rsplit(".", 1)[1])

        def scan(nodes):
            for top in nodes:
                for sub in ast.walk(top):
                    if isinstance(sub, ast.Attribute) and isinstance(sub.ctx, (ast.Store, ast.Del)):
                        fields.add(sub.attr)
                    elif isinstance(sub, ast.AugAssign) and isinstance(sub.target, ast.Attribute):
                        fields.add(sub.target.attr)
                    elif isinstance(sub, ast.Subscript) and isinstance(sub.ctx, (ast.Store, ast.Del)):
                        if isinstance(sub.value, ast.Name):
                            receivers.add(sub.value.id)
                        else:
                            all_containers[0] = True
                    elif isinstance(sub, ast.AugAssign) and isinstance(sub.target, ast.Subscript):
                        all_containers[0] = True
                    elif isinstance(sub, ast.Call):
                        name = None
                        if isinstance(sub.func, ast.Attribute):
                            name = sub.func.attr
                            if name in MUTATING_CONTAINER_METHODS:
                                if isinstance(sub.func.value, ast.Name):
                                    receivers.add(sub.func.value.id)
                                else:
                                    all_containers[0] = True
                        elif isinstance(sub.func, ast.Name):
                            name = sub.func.id
                        if name is None:
                            continue
                        cc = self.cur_contract
                        if cc is not None:
                            ftext = ast.unparse(sub.func)
                            if ftext in cc.callsites:
                                add_contract(self.get_contract(cc.callsites[ftext]))
                        for fid, c in self.reg.items():
                            last = fid.rsplit(".", 1)[-1].rsplit(":", 1)[-1]
                            if last != name and not (last == "__init__" and fid.split(":")[-1].split(".")[0] == name):
                                continue
                            if fid in seen_fids:
                                continue
                            seen_fids.add(fid)
                            if c.inline:
                                fn = self.src.function(fid)
                                if fn is not None:
                                    scan(fn.body)
                            else:
                                add_contract(c)
                    elif isinstance(sub, ast.With):
                        cc = self.cur_contract
                        for item in sub.items:
                            spec = cc.with_items.get(ast.unparse(item.context_expr)) if cc else None
                            if spec:
                                for cid in spec:
                                    if cid:
                                        add_contract(self.get_contract(cid))
        scan(body)
        # property reads are calls too: fields written by getters with contracts
        for top in body:
            for sub in ast.walk(top):
                if isinstance(sub, ast.Attribute) and isinstance(sub.ctx, ast.Load):
                    for fid, c in self.reg.items():
                        if fid.endswith("." + sub.attr) and not c.inline and not c.pure:
                            fn = self.src.function(fid)
                            if fn is not None and any(
                                    (isinstance(d, ast.Name) and d.id == "property") for d in fn.decorator_list):
                                add_contract(c)
                            elif fid.startswith("abs:") and fid in self.abstract_properties:
                                add_contract(c)
        if all_containers[0]:
            cont = "all"
        else:
            cont = receivers
        return fields, ghosts, cont

    abstract_properties = set()

    # ------------------------------------------------------------------
    # frame checking
    def check_frame(self, start, end, modifies, env, old, alloc_bound, where):
        u = self.u
        allowed_fields = {}     # field -> list of z3 ref terms | None (= any)
        allowed_each = {}       # field -> list of (len, elems)
        allowed_lists = []      # ref terms whose list content may change
        allowed_dicts = []
        any_lists = False
        any_dicts = False
        ghosts = set()
        for m in modifies:
            if m.startswith("G_"):
                ghosts.add(m[2:])
            elif m.startswith("*."):
                allowed_fields[m[2:]] = None
            elif m == "lists":
                any_lists = True
            elif m == "dicts":
                any_dicts = any_lists = True
            elif m.startswith("list("):
                v, _ = self.spec_value(m[5:-1], old, env)
                allowed_lists.append(u.r(v.z))
            elif m.startswith("dict("):
                v, _ = self.spec_value(m[5:-1], old, env)
                allowed_dicts.append(u.r(v.z))
            elif m.startswith("each("):
                inner, f = m[5:].split(").", 1)
                seqv, _ = self.spec_value(inner, old, env)
                r = u.r(seqv.z)
                allowed_each.setdefault(f, []).append(
                    (self.heap_array(old, "$len")[r], self.heap_array(old, "$at")[r]))
                allowed_fields.setdefault(f, [])
            elif m == "alloc":
                pass
            elif m == "yields":
                ys = env.get("$yields") or start.env.get("$yields")
                if ys is not None:
                    allowed_lists.append(u.r(ys.z))
            else:
                path, f = m.rsplit(".", 1)
                v, _ = self.spec_value(path, old, env)
                if f in allowed_fields and allowed_fields[f] is None:
                    continue
                allowed_fields.setdefault(f, []).append(u.r(v.z))
        keys = set(start.heap) | set(end.heap)
        for key in sorted(keys):
            a0 = self.heap_array(start, key)
            a1 = self.heap_array(end, key)
            if _same(a0, a1):
                continue
            r = u.fresh_int("r")
            conds = [r > 0, r < alloc_bound]
            if key in ("$len", "$at"):
                if any_lists:
                    continue
                conds += [r != x for x in allowed_lists]
            elif key in ("$has", "$val", "$dlen", "$klen", "$kat"):
                if any_dicts:
                    continue
                conds += [r != x for x in allowed_dicts]
            else:
                al = allowed_fields.get(key, [])
                if al is None:
                    continue
                conds += [r != x for x in al]
                for (ln, el) in allowed_each.get(key, []):
                    k = u.fresh_int("k")
                    conds.append(z3.Not(z3.Exists([k], z3.And(0 <= k, k < ln, el[k] == u.R(r)))))
            goal = z3.ForAll([r], z3.Implies(z3.And(conds), a1[r] == a0[r]))
            self.oblige(end, "frame", "%s.%s" % (where, key.replace("$", "container-")), goal,
                        note="only the declared `modifies` change %s" % key)
        for g in sorted(set(start.ghost) | set(end.ghost)):
            if g in ghosts:
                continue
            if not _same(start.ghost[g], end.ghost[g]):
                self.oblige(end, "frame", "%s.ghost-%s" % (where, g), end.ghost[g] == start.ghost[g],
                            note="ghost %s not in modifies" % g)

    # ------------------------------------------------------------------
    # spec evaluation
    def spec_entry(self):
        return (self.entry_state, self.entry_env) if self.entry_state is not None else None

    _spec_cache = {}

    def parse_spec(self, text):
        node = self._spec_cache.get(text)
        if node is None:
            node = ast.parse(text.strip(), mode="eval").body
            self._spec_cache[text] = node
        return node

    def spec_value(self, text, st, env, old=None, extra=None):
        """Evaluate contract-language text -> (SV, side facts)."""
        node = self.parse_spec(text)
        tmp = st.copy()
        tmp.env = dict(env)
        if extra:
            tmp.env.update(extra)
        saved = (self.in_spec, self.spec_old_state)
        self.in_spec = True
        self.spec_old_state = old
        try:
            s2, v = self.eval(node, tmp, Acc())
        finally:
            self.in_spec, self.spec_old_state = saved
        facts = s2.pc[len(st.pc):]
        return v, facts

    def spec_formula(self, text, st, env, old=None, extra=None):
        v, facts = self.spec_value(text, st, env, old, extra)
        tmp = st
        return self.truthy(v, tmp), facts

    spec_old_state = None

    def spec_old(self, node, st, acc):
        return _spec_old_call(self, node, st, acc)

    def spec_implies(self, node, st, acc):
        st, a = self.eval(node.args[0], st, acc)
        st, b = self.eval(node.args[1], st, acc)
        return st, self.mk_bool(z3.Implies(self.truthy(a, st), self.truthy(b, st)))

    def spec_iff(self, node, st, acc):
        st, a = self.eval(node.args[0], st, acc)
        st, b = self.eval(node.args[1], st, acc)
        return st, self.mk_bool(self.truthy(a, st) == self.truthy(b, st))

    def _quant(self, node, st, acc, is_forall, sort="int"):
        lam = node.args[0]
        if not isinstance(lam, ast.Lambda):
            raise Undecided("quantifier needs a lambda")
        names = [a.arg for a in lam.args.args]
        if sort == "int":
            zs = [self.u.fresh_int(n) for n in names]
        else:
            zs = [self.u.fresh_val(n) for n in names]
        tmp = st.copy()
        for n, z in zip(names, zs):
            tmp.env[n] = self.mk_int(z) if sort == "int" else SV(z)
        mark = len(tmp.pc)
        tmp, body = self.eval(lam.body, tmp, acc)
        t = self.truthy(body, tmp)
        # side facts (typing of what the body reads) are dropped: their polarity is unknown here
        pats = auto_patterns(zs, t)
        import re as _re
        qid = "q_" + _re.sub(r"[^A-Za-z0-9_]+", "_", ast.unparse(lam.body))[:60]
        if pats:
            q = z3.ForAll(zs, t, patterns=pats, qid=qid) if is_forall else z3.Exists(zs, t, patterns=pats, qid=qid)
        else:
            q = z3.ForAll(zs, t, qid=qid) if is_forall else z3.Exists(zs, t, qid=qid)
        return st, self.mk_bool(q)

    def spec_forall_val(self, node, st, acc):
        return self._quant(node, st, acc, True, sort="val")

    def spec_exists_val(self, node, st, acc):
        return self._quant(node, st, acc, False, sort="val")

    def spec_forall(self, node, st, acc):
        return self._quant(node, st, acc, True)

    def spec_exists(self, node, st, acc):
        return self._quant(node, st, acc, False)

    def spec_yielded(self, node, st, acc):
        """yielded(): the list of the values the generator under verification has yielded so far."""
        ys = st.env.get("$yields") or (self.entry_env or {}).get("$yields")
        if ys is None:
            for s_ in reversed(self.loop_entry_stack):
                if s_.env.get("$yields") is not None:
                    ys = s_.env["$yields"]
                    break
        if ys is None:
            raise Undecided("yielded() outside a generator function")
        elem = ast.literal_eval(node.args[0]) if node.args else None
        return st, SV(ys.z, "ref", cls="list", elem=elem)

    def spec_is_fresh(self, node, st, acc):
        st, v = self.eval(node.args[0], st, acc)
        old = self.spec_old_state
        if old is None:
            raise Undecided("is_fresh without old state")
        return st, self.mk_bool(z3.And(self.u.is_R(v.z), self.u.r(v.z) >= old[0].alloc))

    def spec_existed(self, node, st, acc):
        """existed(r): the object id r (an integer, as bound by forall(lambda r: ...)) was allocated before the old state."""
        st, v = self.eval(node.args[0], st, acc)
        old = self.spec_old_state
        if old is None:
            raise Undecided("existed() without old state")
        zi = self.as_int(v) if v.kind == "int" else self.u.i(v.z)
        return st, self.mk_bool(zi < old[0].alloc)

    def spec_old_lists_unchanged(self, node, st, acc):
        """old_lists_unchanged(): every list object that existed when the function was entered has the length and the
        elements it had then (a frame statement usable as loop invariant when the loop only edits new lists)."""
        u = self.u
        es = self.entry_state
        r = u.fresh_int("r")
        k = u.fresh_int("k")
        ln, at = self.heap_array(st, "$len"), self.heap_array(st, "$at")
        ln0, at0 = self.heap_array(es, "$len"), self.heap_array(es, "$at")
        a0 = z3.Int("alloc0")
        body = z3.Implies(z3.And(r > 0, r < a0), z3.And(ln[r] == ln0[r], at[r] == at0[r]))
        f = _forall_pat([r], body, ln[r], at[r], ln0[r])
        return st, self.mk_bool(f)

    def spec_allocated(self, node, st, acc):
        """allocated(x): x is an object that exists in the current state (its id is below the allocation pointer);
        concrete reads get this fact automatically, a quantified clause has to state it."""
        st, v = self.eval(node.args[0], st, acc)
        v = self.box(st, v)
        return st, self.mk_bool(z3.And(self.u.is_R(v.z), self.u.r(v.z) > 0, self.u.r(v.z) < st.alloc))

    def spec_preexisting(self, node, st, acc):
        """preexisting(x): x is an object that was allocated before the function under verification was entered."""
        st, v = self.eval(node.args[0], st, acc)
        v = self.box(st, v)
        a0 = z3.Int("alloc0")
        return st, self.mk_bool(z3.And(self.u.is_R(v.z), self.u.r(v.z) > 0, self.u.r(v.z) < a0))

    def spec_typeof_is(self, node, st, acc):
        st, v = self.eval(node.args[0], st, acc)
        cname = ast.literal_eval(node.args[1])
        return st, self.mk_bool(z3.And(self.u.is_R(v.z), self.class_test(self.u.r(v.z), cname)))

    def spec_exact_type(self, node, st, acc):
        st, v = self.eval(node.args[0], st, acc)
        cname = ast.literal_eval(node.args[1])
        return st, self.mk_bool(z3.And(self.u.is_R(v.z),
                                       self.u.typeof(self.u.r(v.z)) == self.u.class_id(cname)))

    def spec_is_none(self, node, st, acc):
        st, v = self.eval(node.args[0], st, acc)
        if v.z is None:
            return st, self.mk_bool(z3.BoolVal(False))      # a python-side value (function, class, tuple) is not None
        return st, self.mk_bool(self.u.is_none(v.z))

    def spec_at_enter(self, node, st, acc):
        if not self.with_stack:
            raise Undecided("at_enter outside with")
        es = self.with_stack[-1]
        tmp = es.copy()
        tmp.env = dict(st.env)
        _, v = self.eval(node.args[0], tmp, acc)
        return st, v

    def spec_as_list(self, node, st, acc):
        """as_list(x, 'elem type'): view a Val as a list with static element type."""
        st, v = self.eval(node.args[0], st, acc)
        elem = ast.literal_eval(node.args[1]) if len(node.args) > 1 else None
        cls = v.cls if v.cls in ("tuple", "dictkeys") else "list"
        return st, SV(v.z, "ref", cls=cls, elem=elem)

    def spec_has_key(self, node, st, acc):
        st, d = self.eval(node.args[0], st, acc)
        st, k = self.eval(node.args[1], st, acc)
        k = self.box(st, k)
        return st, self.mk_bool(self.heap_array(st, "$has")[self.u.r(d.z)][k.z])

    def spec_dict_value(self, node, st, acc):
        st, d = self.eval(node.args[0], st, acc)
        st, k = self.eval(node.args[1], st, acc)
        kb = self.box(st, k)
        z = self.heap_array(st, "$val")[self.u.r(d.z)][kb.z]
        if d.kind == "ref" and d.cls == "dict" and d.elem:
            return st, self.typed(z, self.dict_value_type(d, k))
        return st, SV(z)

    def spec_uf_keys(self, node, st, acc):
        """the key list (insertion order) of a dict"""
        st, d = self.eval(node.args[0], st, acc)
        return st, SV(d.z, "ref", cls="dictkeys")

    def spec_min(self, node, st, acc):
        st, a = self.eval(node.args[0], st, acc)
        st, b = self.eval(node.args[1], st, acc)
        x, y = self.as_int(a), self.as_int(b)
        return st, self.mk_int(z3.If(x <= y, x, y))

    def spec_has_kind(self, node, st, acc):
        st, v = self.eval(node.args[0], st, acc)
        t = ast.literal_eval(node.args[1])
        return st, self.mk_bool(self.type_pred(self.box(st, v).z, t))

    def spec_as_str(self, node, st, acc):
        """as_str(v): v read as a string (meaningful where has_kind(v, 'str'))"""
        st, v = self.eval(node.args[0], st, acc)
        return st, SV(self.box(st, v).z, "str")

    def spec_as_tuple(self, node, st, acc):
        st, v = self.eval(node.args[0], st, acc)
        elem = ast.literal_eval(node.args[1]) if len(node.args) > 1 else None
        return st, SV(v.z, "ref", cls="tuple", elem=elem)

    def spec_as_ref(self, node, st, acc):
        st, v = self.eval(node.args[0], st, acc)
        cname = ast.literal_eval(node.args[1])
        return st, SV(v.z, "ref", cls=cname)

    def spec_int_parses(self, node, st, acc):
        st, v = self.eval(node.args[0], st, acc)
        v = self.box(st, v)
        return st, self.mk_bool(self.u.uf("int_parses", self.u.Val, self.u.Bool)(v.z))

    def spec_int_of(self, node, st, acc):
        st, v = self.eval(node.args[0], st, acc)
        v = self.box(st, v)
        return st, self.mk_int(self.u.uf("int_of", self.u.Val, self.u.Int)(v.z))

    def spec_truthy(self, node, st, acc):
        st, v = self.eval(node.args[0], st, acc)
        return st, self.mk_bool(self.truthy(v, st))

    def spec_uf_bool(self, node, st, acc):
        """uf_bool('name', a, b, ...): the engine's uninterpreted predicate of that name (Val args)."""
        name = ast.literal_eval(node.args[0])
        zs = []
        for a in node.args[1:]:
            st, v = self.eval(a, st, acc)
            zs.append(self.box(st, v).z)
        f = self.u.uf(name, *([self.u.Val] * len(zs) + [self.u.Bool]))
        return st, self.mk_bool(f(*zs))

    def spec_field_of(self, node, st, acc):
        """field_of(r, 'field'[, 'Class']): heap read at a quantified reference r (an int)."""
        st, r = self.eval(node.args[0], st, acc)
        f = ast.literal_eval(node.args[1])
        cls = ast.literal_eval(node.args[2]) if len(node.args) > 2 else None
        z = self.heap_array(st, f)[self.as_int(r)]
        t = self.field_type(cls, f) if cls else None
        return st, self.typed(z, t)

    def spec_ref_of(self, node, st, acc):
        st, v = self.eval(node.args[0], st, acc)
        return st, self.mk_int(self.u.r(v.z))

    def spec_unchanged(self, node, st, acc):
        """unchanged('field'): the field has its old value for every object."""
        f = ast.literal_eval(node.args[0])
        old = self.spec_old_state
        if old is None:
            raise Undecided("unchanged() without old state")
        new_a, old_a = self.heap_array(st, f), self.heap_array(old[0], f)
        if new_a.eq(old_a):
            return st, self.mk_bool(z3.BoolVal(True))
        # pointwise (no array equality: extensionality reasoning is expensive)
        r = self.u.fresh_int("r")
        return st, self.mk_bool(_forall_pat([r], new_a[r] == old_a[r], new_a[r], old_a[r]))

    def spec_unchanged_except(self, node, st, acc):
        """unchanged_except('field', obj): every object other than obj keeps the field."""
        u = self.u
        f = ast.literal_eval(node.args[0])
        old = self.spec_old_state
        if old is None:
            raise Undecided("unchanged_except() without old state")
        st, obj = self.eval(node.args[1], st, acc)
        r = u.fresh_int("r")
        new_a, old_a = self.heap_array(st, f), self.heap_array(old[0], f)
        if new_a.eq(old_a):
            return st, self.mk_bool(z3.BoolVal(True))
        body = z3.Or(r == u.r(obj.z), new_a[r] == old_a[r])
        return st, self.mk_bool(_forall_pat([r], body, new_a[r], old_a[r]))

    def spec_unchanged_outside(self, node, st, acc):
        """unchanged_outside('field', seq): objects that are not elements of seq keep the field."""
        u = self.u
        f = ast.literal_eval(node.args[0])
        old = self.spec_old_state
        if old is None:
            raise Undecided("unchanged_outside() without old state")
        st, seq = self.eval(node.args[1], st, acc)
        r = u.fresh_int("r")
        k = u.fresh_int("k")
        n = self.seq_len(old[0], seq)
        el = self.seq_elems(old[0], seq)
        member = z3.Exists([k], z3.And(0 <= k, k < n, el(k) == u.R(r)))
        new_a, old_a = self.heap_array(st, f), self.heap_array(old[0], f)
        if new_a.eq(old_a):
            return st, self.mk_bool(z3.BoolVal(True))
        return st, self.mk_bool(_forall_pat([r], z3.Or(member, new_a[r] == old_a[r]), new_a[r], old_a[r]))

    def spec_str_in(self, node, st, acc):
        st, a = self.eval(node.args[0], st, acc)
        st, b = self.eval(node.args[1], st, acc)
        return st, self.mk_bool(self.contains(st, b, a, acc, node))

    def spec_str_startswith(self, node, st, acc):
        st, a = self.eval(node.args[0], st, acc)
        st, b = self.eval(node.args[1], st, acc)
        return self.str_method(st, acc, a, "startswith", [b], {}, node)

    def spec_pre(self, node, st, acc):
        """pre(e): value of e when the innermost enclosing loop was entered (loop invariants only)."""
        if not self.loop_entry_stack:
            raise Undecided("pre() outside a loop invariant")
        es = self.loop_entry_stack[-1]
        tmp = es.copy()
        env = dict(es.env)
        for k, v in st.env.items():
            if k.startswith("_") or k not in env:
                env[k] = v
        tmp.env = env
        _, v = self.eval(node.args[0], tmp, acc)
        return st, v

    loop_entry_stack = []
    iter_start_stack = []

    def spec_at_start(self, node, st, acc):
        """at_start(e): value of e when the current iteration started (ghost updates only)."""
        if not self.iter_start_stack:
            raise Undecided("at_start() outside a ghost update")
        es = self.iter_start_stack[-1]
        tmp = es.copy()
        tmp.env = dict(es.env)
        _, v = self.eval(node.args[0], tmp, acc)
        return st, v

    def spec_ite(self, node, st, acc):
        st, c = self.eval(node.args[0], st, acc)
        st, a = self.eval(node.args[1], st, acc)
        st, b = self.eval(node.args[2], st, acc)
        return st, self.merge_sv_pair(self.truthy(c, st), a, b)


def _forall_pat(vs, body, *cands):
    """ForAll with the first candidate pattern z3 accepts (array constants only), else inferred."""
    for c in cands:
        try:
            if z3.is_const(c.arg(0)):
                return z3.ForAll(vs, body, patterns=[c])
        except Exception:
            pass
    return z3.ForAll(vs, body)


def auto_patterns(zs, body):
    """Patterns for a contract-language quantifier: array reads / uninterpreted applications whose
    argument is exactly a bound variable (e.g. status[r], at[xs][k], G_ev_kind[k]).  Each candidate
    that covers all bound variables is an alternative single pattern; otherwise one multi-pattern
    covering all variables is built.  Returns [] when nothing suitable exists (z3 infers)."""
    ids = {z.get_id(): i for i, z in enumerate(zs)}
    cands = []          # (term, frozenset(var indices))
    seen = set()
    stack = [body]
    while stack:
        t = stack.pop()
        i = t.get_id()
        if i in seen:
            continue
        seen.add(i)
        if z3.is_quantifier(t):
            continue
        if z3.is_app(t):
            ch = t.children()
            k = t.decl().kind()
            if k in (z3.Z3_OP_SELECT, z3.Z3_OP_UNINTERPRETED) and ch:
                direct = [ids[c.get_id()] for c in ch if c.get_id() in ids]
                if direct:
                    vs = set()
                    sub = [t]
                    ok = True
                    sseen = set()
                    while sub:
                        x = sub.pop()
                        if x.get_id() in sseen:
                            continue
                        sseen.add(x.get_id())
                        if x.get_id() in ids:
                            vs.add(ids[x.get_id()])
                        elif z3.is_app(x):
                            kk = x.decl().kind()
                            if kk in (z3.Z3_OP_ADD, z3.Z3_OP_SUB, z3.Z3_OP_MUL, z3.Z3_OP_ITE, z3.Z3_OP_EQ, z3.Z3_OP_STORE,
                                      z3.Z3_OP_CONST_ARRAY, z3.Z3_OP_DT_CONSTRUCTOR,
                                      z3.Z3_OP_LE, z3.Z3_OP_LT, z3.Z3_OP_GE, z3.Z3_OP_GT, z3.Z3_OP_AND,
                                      z3.Z3_OP_OR, z3.Z3_OP_NOT, z3.Z3_OP_IMPLIES):
                                ok = False
                                break
                            sub.extend(x.children())
                        elif z3.is_quantifier(x):
                            ok = False
                            break
                    if ok and vs:
                        cands.append((t, frozenset(vs)))
            stack.extend(ch)
    allv = frozenset(range(len(zs)))
    full = [t for t, vs in cands if vs == allv]
    if full:
        # at most a handful of alternatives
        uniq = []
        for t in full:
            if not any(t.eq(u) for u in uniq):
                uniq.append(t)
        return uniq[:6]
    if len(zs) > 1 and cands:
        chosen = []
        covered = set()
        for t, vs in cands:
            if not vs <= covered:
                chosen.append(t)
                covered |= vs
            if covered == set(allv):
                return [z3.MultiPattern(*chosen)]
    return []


def _spec_old_call(self, node, st, acc):
    old = self.spec_old_state
    if old is None:
        raise Undecided("old() without a pre-state")
    ost, oenv = old
    tmp = ost.copy()
    tmp.env = dict(oenv)
    # names bound by quantifiers / result stay visible
    for k, v in st.env.items():
        if k not in tmp.env:
            tmp.env[k] = v
    saved = self.spec_old_state
    try:
        s2, v = self.eval(node.args[0], tmp, acc)
    finally:
        self.spec_old_state = saved
    for f in s2.pc[len(ost.pc):]:
        st.assume(f)
    return st, v


def _as_load(target):
    t = ast.parse(ast.unparse(target), mode="eval").body
    return t


def _assigned_names(body):
    names = set()
    for top in body:
        for sub in ast.walk(top):
            if isinstance(sub, ast.Name) and isinstance(sub.ctx, (ast.Store, ast.Del)):
                names.add(sub.id)
            elif isinstance(sub, ast.ExceptHandler) and sub.name:
                names.add(sub.name)
            elif isinstance(sub, (ast.FunctionDef, ast.ClassDef)):
                names.add(sub.name)
    return names


def _target_names(target):
    return {n.id for n in ast.walk(target) if isinstance(n, ast.Name)}


def _walk_in_order(fn):
    """Statements of a function in source order, not descending into nested defs."""
    stack = list(reversed(fn.body))
    while stack:
        node = stack.pop()
        yield node
        children = []
        for field in ("body", "orelse", "finalbody", "handlers"):
            children.extend(getattr(node, field, []) or [])
        if isinstance(node, (ast.FunctionDef, ast.AsyncFunctionDef, ast.ClassDef)):
            continue
        stack.extend(reversed(children))
