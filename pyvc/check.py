# -*- coding: utf-8 -*-
"""
pyvc.check -- the per-property check:  ./check <Cxx> --tier quick|thorough [--replay FILE]

Exit codes (DESIGN.md 3.10): 0 held / 1 VIOLATION / 2 undecided / 3 checker crash.
"""
from __future__ import print_function
import argparse
import hashlib
import json
import multiprocessing
import os
import subprocess
import sys
import time
import traceback

HERE = os.path.dirname(os.path.dirname(os.path.abspath(__file__)))
VENV_PY = os.environ.get("VERIF_VENV_PY", "/venv/bin/python")
REPO = os.environ.get("VERIF_REPO", "/repo")

sys.setrecursionlimit(20000)


def load_known_findings():
    path = os.path.join(HERE, "known_findings.json")
    if not os.path.exists(path):
        return {"open": [], "fixed": []}
    with open(path) as f:
        return json.load(f)


def load_dead_baseline():
    path = os.path.join(HERE, "contracts", "baseline_dead_paths.json")
    if os.path.exists(path):
        with open(path) as f:
            return json.load(f)
    return {}


def load_baseline():
    path = os.path.join(HERE, "contracts", "baseline_obligations.json")
    if not os.path.exists(path):
        return {}
    with open(path) as f:
        return json.load(f)


def run_rtcheck(fid, tier="quick", seed=0, clauses=None, case=None, regions=None, max_fail=3,
                timeout=1800):
    cmd = [VENV_PY, "-m", "harness.rtcheck", fid, "--tier", tier, "--seed", str(seed),
           "--max-fail", str(max_fail)]
    if clauses:
        cmd += ["--clauses", ",".join(sorted(clauses))]
    if case is not None:
        cmd += ["--case", json.dumps(case)]
    if regions:
        cmd += ["--regions", json.dumps(regions)]
    env = dict(os.environ)
    env["VERIF_REPO"] = REPO
    env["PYTHONDONTWRITEBYTECODE"] = "1"
    try:
        p = subprocess.run(cmd, cwd=HERE, capture_output=True, text=True, timeout=timeout, env=env)
    except subprocess.TimeoutExpired:
        return {"fid": fid, "error": "timeout", "failures": [], "evaluations": 0, "distinct": 0}
    line = (p.stdout.strip().splitlines() or [""])[-1]
    try:
        return json.loads(line)
    except ValueError:
        return {"fid": fid, "error": "harness crashed: " + (p.stderr.strip()[-1500:] or p.stdout[-500:]),
                "failures": [], "evaluations": 0, "distinct": 0}


# ---------------------------------------------------------------------------
_PREP = []          # [(fid, vc, info, obligations(list of (Obligation, kf entries)))]  filled before forking


def _prepare(fid, kf_entries, prop=None):
    """Symbolic execution of one function in the main process -> obligations (z3 terms)."""
    from pyvc import source, contracts as C
    from pyvc.verify import PyVC
    from pyvc.engine import Obligation
    import z3
    t0 = time.time()
    src = source.sources()
    vc = PyVC(src)
    c = C.REG[fid]
    try:
        info = vc.verify_lemma(fid) if c.spec_only else vc.verify_function(fid)
    except Exception:
        info = {"fid": fid, "status": "crash", "error": traceback.format_exc()[-3000:], "obligations": [], "covers": []}
    items = []
    only = c.prop_clauses.get(prop)
    if only is not None:
        # this property is served by some postcondition clauses of the function only
        info["obligations"] = [ob for ob in info.get("obligations", [])
                               if ob.kind != "post" or ob.label in only or ob.label.split(".")[-1] in only]
        info["clauses_selected_for_this_property"] = sorted(only)
    for ob in info.get("obligations", []):
        ents = [e for e in kf_entries if e.get("obligation") == ob.oid]
        ob2 = None
        if ents:
            # the witness of each listed finding was just reproduced on the real code, so the full
            # obligation is known to be false: only the complement of the regions is proved
            regs = []
            for e in ents:
                f, facts = vc.spec_formula(e["region"], vc.entry_state, vc.entry_env)
                regs.append(f)
            ob2 = Obligation(ob.oid + "@outside-known-findings", ob.kind, ob.label, ob.pc, z3.Or(regs + [ob.goal]))
        items.append((ob, ents, ob2))
    info["symexec_s"] = round(time.time() - t0, 3)
    return (fid, vc, info, items)


BASE_RLIMIT = [0]
PATHSCAN = -1000000
PATHCHUNK = 6


def _cut_by_wall_clock(rec):
    reason = str(rec.get("reason") or (rec.get("kf") or {}).get("reason") or "").lower()
    return (not reason) or ("timeout" in reason) or ("cancel" in reason) or ("interrupt" in reason)


def _solve_one(job):
    fi, oi, rlimit, both = job
    from pyvc.verify import check_obligation, check_cover, run_cvc5, check_paths
    import z3
    fid, vc, info, items = _PREP[fi]
    if oi <= PATHSCAN:
        ch = PATHSCAN - oi
        part = info["paths"][ch * PATHCHUNK:(ch + 1) * PATHCHUNK]
        res = check_paths(vc, part)
        dead = sorted(set("%s:%d:%d" % (p["function"], p["line"], p["branch"]) for p in part
                          if res.get(p["name"]) == "dead"))
        return (fi, oi, {"paths": len(part), "dead": dead})
    if oi < 0:
        name, pcs = info["covers"][-oi - 1]
        return (fi, oi, {"cover": name, "result": check_cover(vc, pcs)})
    ob, ents, ob2 = items[oi]
    rec = {"oid": ob.oid, "kind": ob.kind, "label": ob.label, "note": ob.note, "where": ob.where, "kf": None}
    # first attempt: 45 s wall per pass (obligations of the unchanged tree take seconds); the retry gets 120 s
    # the last attempt (4x budget, marked by the odd limit) is cut by the deterministic resource limit only (wall clock
    # 150 s per pass): its verdict does not depend on how many other checks share the cores
    tmo = 150000 if rlimit == BASE_RLIMIT[0] * 4 + 1 else (120000 if rlimit > BASE_RLIMIT[0] else 45000)
    if ents:
        check_obligation(vc, ob2, rlimit=rlimit, timeout_ms=tmo)
        rec.update(status="known-finding", backend=None, time=0.0, model=None)
        rec["kf"] = {"ids": [e["id"] for e in ents], "status": ob2.status, "backend": ob2.backend,
                     "time": round(ob2.time, 3), "model": ob2.model}
        rec["solver_time"] = ob2.time
    else:
        check_obligation(vc, ob, rlimit=rlimit, timeout_ms=tmo)
        rec.update(status=ob.status, backend=ob.backend, time=round(ob.time, 3), model=ob.model,
                   reason=getattr(ob, "reason", None))
        rec["solver_time"] = ob.time
        if ob.status == "discharged" and both:
            s = z3.Solver()
            for ax in vc.axioms():
                s.add(ax)
            for f in ob.pc:
                s.add(f)
            s.add(z3.Not(ob.goal))
            rec["cvc5"] = run_cvc5(s.to_smt2(), timeout_s=30)
    return (fi, oi, rec)


def _bworker(job):
    if job[0] == "@bounded":
        _, prop, tier, seed, known = job
        return run_bounded(prop, tier, seed, known)
    fid, tier, seed, regions = job
    return run_rtcheck(fid, tier=tier, seed=seed, regions=regions, max_fail=5)


def run_bounded(prop, tier="quick", seed=0, known=None, only=None, case=None, timeout=3300):
    cmd = [VENV_PY, "-m", "harness.bounded", prop, "--tier", tier, "--seed", str(seed)]
    if known:
        cmd += ["--known", json.dumps(known)]
    if only:
        cmd += ["--only", only]
    if case is not None:
        cmd += ["--case", json.dumps(case)]
    env = dict(os.environ)
    env["VERIF_REPO"] = REPO
    env["PYTHONDONTWRITEBYTECODE"] = "1"
    try:
        p = subprocess.run(cmd, cwd=HERE, capture_output=True, text=True, timeout=timeout, env=env)
    except subprocess.TimeoutExpired:
        return {"@bounded": True, "checks": [], "error": "timeout"}
    line = (p.stdout.strip().splitlines() or [""])[-1]
    try:
        out = json.loads(line)
    except ValueError:
        out = {"checks": [], "error": "bounded harness crashed: " + (p.stderr.strip()[-1500:] or p.stdout[-500:])}
    out["@bounded"] = True
    return out


# ---------------------------------------------------------------------------
def write_replay(prop, payload):
    d = os.path.join(HERE, "replays", prop)
    os.makedirs(d, exist_ok=True)
    key = hashlib.sha1(json.dumps(payload, sort_keys=True, default=str).encode()).hexdigest()[:12]
    path = os.path.join(d, "%s.json" % key)
    with open(path, "w") as f:
        json.dump(payload, f, indent=1, default=str)
    return path


def do_replay(prop, path):
    with open(path) as f:
        payload = json.load(f)
    if payload.get("bounded_check"):
        res = run_bounded(prop, tier="thorough", only=payload["bounded_check"], case=payload["case"])
        fails = [f for c in res.get("checks", []) for f in c.get("failures", [])]
        if fails or res.get("error"):
            print("VIOLATION property=%s replay=%s" % (prop, path))
            print(json.dumps(fails[0] if fails else res.get("error")))
            return 1
        print("replay: input no longer fails")
        return 0
    if payload.get("case") is None:
        print("replay file carries no concrete input (obligation %s); solver output:\n%s"
              % (payload.get("obligation"), payload.get("solver_output")))
        return 1
    res = run_rtcheck(payload["function"], case=payload["case"],
                      clauses=[payload["clause"]] if payload.get("clause") else None)
    if res.get("failures"):
        print("VIOLATION property=%s replay=%s" % (prop, path))
        print(json.dumps(res["failures"][0]))
        return 1
    print("replay: input no longer fails (%s)" % res.get("error", "ok"))
    return 0


# ---------------------------------------------------------------------------
def property_config(prop):
    import contracts as sidecar
    return sidecar.PROPERTIES.get(prop, {})


def main(argv=None):
    ap = argparse.ArgumentParser()
    ap.add_argument("prop")
    ap.add_argument("--tier", default=os.environ.get("VERIF_TIER", "quick"))
    ap.add_argument("--replay", default=None)
    ap.add_argument("--update-baseline", action="store_true")
    ap.add_argument("--jobs", type=int, default=int(os.environ.get("VERIF_JOBS", "16")))
    ap.add_argument("--verbose", "-v", action="store_true")
    args = ap.parse_args(argv)
    prop = args.prop
    seed = int(os.environ.get("VERIF_SEED", "0"))
    t0 = time.time()
    if args.replay:
        return do_replay(prop, args.replay)
    try:
        return run_check(prop, args, seed, t0)
    except SystemExit:
        raise
    except Exception:
        traceback.print_exc()
        print("CHECKER-CRASH property=%s" % prop)
        return 3


def run_check(prop, args, seed, t0):
    from pyvc import contracts as C
    import contracts as sidecar
    sidecar.load_all()
    cfg = sidecar.PROPERTIES[prop]
    tier = args.tier
    kf = load_known_findings()
    baseline = load_baseline().get(prop, [])
    fids = [f for f, c in C.REG.items()
            if prop in c.props and not c.trusted and not f.startswith(("abs:", "lib:", "new:", "user:"))]
    fids.sort()
    lines = []

    def say(s):
        print(s)
        sys.stdout.flush()

    # stale replay files of earlier runs of this property are removed
    rdir = os.path.join(HERE, "replays", prop)
    if os.path.isdir(rdir):
        for fn in os.listdir(rdir):
            if fn.endswith(".json"):
                os.unlink(os.path.join(rdir, fn))

    # 1. known findings: replay each witness on the real code first
    active = []
    for e in kf.get("open", []):
        if e["property"] != prop:
            continue
        w = e.get("witness")
        still = True
        if e.get("bounded_check"):
            res = run_bounded(prop, tier="thorough", only=e["bounded_check"], case=e["case"])
            still = any(c.get("failures") for c in res.get("checks", [])) or bool(res.get("error"))
        elif w:
            res = run_rtcheck(w["function"], case=w["case"], clauses=[w["clause"]])
            still = bool(res.get("failures"))
        if still:
            active.append(e)
            say("KNOWN-FINDING: property=%s %s: %s" % (prop, e["id"], e["what"]))
        else:
            say("note: known finding %s no longer reproduces; its exclusion is dropped" % e["id"])
    regions_by_fid = {}
    for e in active:
        if not e.get("obligation"):
            continue
        fid = e["obligation"].split("#")[0]
        clause = e["obligation"].split("#")[1].split(".", 1)[1]
        regions_by_fid.setdefault(fid, {}).setdefault(clause, []).append(e["region"])

    # 2. proofs: symbolic execution per function here, then every obligation solved in a forked pool
    rlimit = int(os.environ.get("PYVC_RLIMIT", "40000000" if tier == "quick" else "120000000"))
    BASE_RLIMIT[0] = rlimit
    global _PREP
    _PREP = [_prepare(f, [e for e in active if e.get("obligation", "").startswith(f + "#")], prop) for f in fids]
    sjobs = []
    for fi, (fid, vc, info, items) in enumerate(_PREP):
        for oi in range(len(items)):
            sjobs.append((fi, oi, rlimit, tier == "thorough"))
        for ci in range(len(info.get("covers", []))):
            sjobs.append((fi, -ci - 1, rlimit, False))
        npaths = len(info.get("paths") or [])
        for ch in range((npaths + PATHCHUNK - 1) // PATHCHUNK):
            sjobs.append((fi, PATHSCAN - ch, rlimit, False))
    bfids = [f for f in cfg.get("bounded", [])]
    bjobs = [(f, tier, seed, regions_by_fid.get(f)) for f in bfids]
    has_bounded = os.path.exists(os.path.join(HERE, "harness", "b_%s.py" % prop.lower())) \
        and not os.environ.get("PYVC_NO_BOUNDED")
    if has_bounded:
        known_cases = {}
        for e in active:
            if e.get("bounded_check"):
                known_cases.setdefault(e["bounded_check"], []).append(
                    {"case": e["case"], "region": e.get("region")})
        bjobs.append(("@bounded", prop, tier, seed, known_cases))
    ctx = multiprocessing.get_context("fork")
    with ctx.Pool(min(args.jobs, max(1, len(sjobs) + len(bjobs)))) as pool:
        bres_async = pool.map_async(_bworker, bjobs, chunksize=1)
        sres = pool.map(_solve_one, sjobs, chunksize=1) if sjobs else []
        # an `unknown` (resource limit / timeout) is retried once with four times the budget in a fresh
        # process before it is reported: verdicts must not flip with machine load
        retry = [(fi, oi, rl * 4, both) for (fi, oi, rl, both), (_f, _o, rec) in zip(sjobs, sres)
                 if oi >= 0 and (rec.get("status") == "unknown" or (rec.get("kf") or {}).get("status") == "unknown")]
        # PYVC_FAST_UNKNOWN=1 (sweeps over seeded changes only, never a registered command): report an `unknown` of the
        # first attempt as it is; the retries below can only turn a reported violation into a pass
        fast_unknown = bool(os.environ.get("PYVC_FAST_UNKNOWN"))
        if fast_unknown:
            retry = []
        if retry:
            for (fi, oi, _rl, _b) in retry:
                say("note: retrying %s with a larger budget (first answer: unknown)" % _PREP[fi][3][oi][0].oid)
            rres = pool.map(_solve_one, retry, chunksize=1)
            redo = {(fi, oi): rec for (fi, oi, rec) in rres}
            sres = [(fi, oi, dict(redo[(fi, oi)], retried=True)) if (fi, oi) in redo else (fi, oi, rec)
                    for (fi, oi, rec) in sres]
        bresults = bres_async.get()
        # last resort for obligations of the committed baseline that are still `unknown`: they would be reported as
        # violations, so they get one more attempt with four times the resource budget and no effective wall-clock limit,
        # one at a time (the bounded stand-ins have finished) -- a verdict must not depend on how busy the cores were
        last = [(fi, oi, BASE_RLIMIT[0] * 4 + 1, both) for (fi, oi, rec), (_fi, _oi, _rl, both) in
                [(x, y) for x, y in zip(sres, sjobs)]
                if oi >= 0 and (rec.get("status") == "unknown" or (rec.get("kf") or {}).get("status") == "unknown")
                and _PREP[fi][3][oi][0].oid in baseline
                # only when the retry was cut by the wall clock: an answer cut by the deterministic resource limit comes
                # out the same again
                and _cut_by_wall_clock(rec)]
        # (pointless when a violation is certain anyway: a refuted obligation or a failing bounded case)
        certain = any(r2.get("status") == "refuted" for (_f, o2, r2) in sres if o2 >= 0) or \
            any((b or {}).get("failures") for b in bresults if isinstance(b, dict)) or \
            any(c.get("failures") for b in bresults if isinstance(b, dict) for c in b.get("checks", []))
        if last and not certain and not fast_unknown:
            import multiprocessing as _mp
            for job in last:
                say("note: last attempt for %s (still unknown; 4x resource budget, 150 s per pass, alone)" % _PREP[job[0]][3][job[1]][0].oid)
                with _mp.get_context("fork").Pool(1) as solo:
                    fi, oi, rec = solo.apply(_solve_one, (job,))
                sres = [(f2, o2, dict(rec, retried=True)) if (f2, o2) == (fi, oi) else (f2, o2, r2) for (f2, o2, r2) in sres]
                if rec.get("status") == "unknown" or (rec.get("kf") or {}).get("status") == "unknown":
                    break       # this one will be reported: the verdict no longer depends on the others
    presults = []
    for fi, (fid, vc, info, items) in enumerate(_PREP):
        obls = [None] * len(items)
        covers = []
        pathscan = None
        for (f2, oi, rec) in sres:
            if f2 != fi:
                continue
            if oi >= 0:
                obls[oi] = rec
            elif oi <= PATHSCAN:
                if pathscan is None:
                    pathscan = {"paths": 0, "dead": []}
                pathscan["paths"] += rec["paths"]
                pathscan["dead"] = sorted(set(pathscan["dead"]) | set(rec["dead"]))
            else:
                covers.append((rec["cover"], rec["result"]))
        presults.append({"fid": fid, "status": info["status"], "error": info.get("error"), "sha": info.get("sha"),
                         "lines": info.get("lines"), "obligations": obls, "covers": covers, "pathscan": pathscan,
                         "assumptions": sorted(vc.assumptions_used), "trusted": sorted(vc.trusted_used),
                         "inlined": sorted(vc.inlined),
                         "solver_time": round(sum(r.get("solver_time", 0.0) for r in obls), 3),
                         "wall": info.get("symexec_s", 0.0)})

    # 3. verdicts
    dead_now = {}
    cross = {}
    paths_total = {}
    dead_baseline = load_dead_baseline()
    violations = []     # (oid or clause, replay path, no_input)
    undecided = []
    n_obl = n_dis = 0
    backend_counts = {}
    solver_time = 0.0
    functions = []
    samples = []
    kf_obligs = []
    bounded_out = [b for b in bresults if b.get("@bounded")]
    bresults = [b for b in bresults if not b.get("@bounded")]
    bmap = {b["fid"]: b for b in bresults}
    discharged_now = []
    for r in presults:
        functions.append({"function": r["fid"], "source_sha": r.get("sha"), "lines": r.get("lines"),
                          "obligations": len(r["obligations"]), "status": r["status"],
                          "solver_time_s": r["solver_time"], "wall_s": r["wall"],
                          "inlined": r["inlined"]})
        solver_time += r["solver_time"]
        if r["status"] == "crash":
            say("CHECKER-CRASH in %s:\n%s" % (r["fid"], r["error"]))
            undecided.append((r["fid"], "engine crash"))
            continue
        if r["status"] == "undecided":
            undecided.append((r["fid"], r["error"]))
            if args.verbose:
                say("undecided: %s: %s" % (r["fid"], r["error"]))
        for name, res in r["covers"]:
            if res == "unreachable" and name.startswith(("return-reachable", "premises")):  # 'unknown' is not vacuity
                undecided.append((r["fid"], "vacuity: %s is %s" % (name, res)))
        if r.get("pathscan"):
            dead_now[r["fid"]] = r["pathscan"]["dead"]
            paths_total[r["fid"]] = r["pathscan"]["paths"]
            known_dead = set(dead_baseline.get(r["fid"], []))
            for d in r["pathscan"]["dead"]:
                if d not in known_dead and not args.update_baseline:
                    undecided.append((r["fid"], "vacuity guard: path %s (function:line:branch) is unreachable under the "
                                      "contracts and not in the reviewed list contracts/baseline_dead_paths.json; "
                                      "obligations on it hold vacuously" % d))
        for ob in r["obligations"]:
            n_obl += 1
            ok = ob["status"] == "discharged"
            if not ok and ob["kf"] and ob["kf"]["status"] == "discharged":
                ok = True
                kf_obligs.append({"obligation": ob["oid"], "known_findings": ob["kf"]["ids"],
                                  "proved": "on the complement of the listed regions"})
                backend_counts[ob["kf"]["backend"]] = backend_counts.get(ob["kf"]["backend"], 0) + 1
            elif ok:
                backend_counts[ob["backend"]] = backend_counts.get(ob["backend"], 0) + 1
            if ok and ob.get("cvc5") is not None:
                cross[ob["cvc5"]] = cross.get(ob["cvc5"], 0) + 1
                if ob["cvc5"] == "sat":
                    undecided.append((ob["oid"], "solver disagreement: z3 proves the obligation, cvc5 reports a counter-model"))
            if ok:
                n_dis += 1
                discharged_now.append(ob["oid"])
                if len(samples) < 6:
                    samples.append({"obligation": ob["oid"], "status": "discharged",
                                    "backend": ob["backend"], "time_s": ob["time"], "clause": ob["note"][:200]})
                continue
            if args.verbose:
                say("  not discharged: %s (%s) %s" % (ob["oid"], ob["status"], ob["note"][:120]))
            # failing / unknown obligation: look for a concrete failing input on the real code
            fid = r["fid"]
            clause = ob["label"] if ob["kind"] in ("post", "lemma") else None
            found = None
            b = bmap.get(fid)
            if b and b.get("failures"):
                for fl in b["failures"]:
                    if clause is None or fl["clause"] == clause or ob["kind"] != "post":
                        found = fl
                        break
            if found is None and (fid in sidecar_gens()):
                res = run_rtcheck(fid, tier="thorough" if tier == "thorough" else "quick", seed=seed,
                                  clauses=[clause] if clause else None,
                                  regions=regions_by_fid.get(fid), max_fail=1)
                if res.get("failures"):
                    found = res["failures"][0]
            payload = {"property": prop, "function": fid, "obligation": ob["oid"], "clause": clause,
                       "clause_text": ob["note"], "solver_status": ob["status"],
                       "solver_output": ob["model"] or ob.get("reason", ""),
                       "case": found["case"] if found else None,
                       "observed": found["detail"] if found else None,
                       "replay_cmd": "./check %s --replay <this file>" % prop}
            if found is not None:
                path = write_replay(prop, payload)
                violations.append((ob["oid"], path, False))
            elif ob["oid"] in baseline or ob["status"] == "refuted":
                path = write_replay(prop, payload)
                violations.append((ob["oid"], path, True))
            else:
                undecided.append((ob["oid"], "not discharged (%s), no failing input found, not in baseline" % ob["status"]))
    # baseline obligations that vanished
    if baseline and not args.update_baseline:
        have = set(discharged_now) | {v[0] for v in violations}
        for oid in baseline:
            if oid not in have and not any(u[0] == oid for u in undecided):
                fidx = oid.split("#")[0]
                if not any(u[0] == fidx for u in undecided):
                    undecided.append((oid, "baseline obligation no longer generated"))
    # bounded stand-ins: failures are natively reproduced inputs
    bounded = []
    for b in bresults:
        bounded.append({"contract": b["fid"], "bound": b.get("bound"), "evaluations": b.get("evaluations", 0),
                        "distinct_nontrivial": b.get("distinct", 0), "passed": not b.get("failures") and not b.get("error"),
                        "error": b.get("error")})
        if b.get("error"):
            undecided.append((b["fid"], "bounded harness: %s" % b["error"]))
        for fl in b.get("failures", []):
            oid = "%s#post.%s" % (b["fid"], fl["clause"])
            if any(v[0] == oid for v in violations):
                continue
            payload = {"property": prop, "function": b["fid"], "obligation": oid, "clause": fl["clause"],
                       "solver_status": "bounded stand-in (runtime contract evaluation)",
                       "case": fl["case"], "observed": fl["detail"],
                       "replay_cmd": "./check %s --replay <this file>" % prop}
            violations.append((oid, write_replay(prop, payload), False))
            break
    for bo in bounded_out:
        if bo.get("error"):
            undecided.append(("bounded:%s" % prop, bo["error"]))
        for chk in bo.get("checks", []):
            bounded.append({"contract": "bounded:" + chk["name"], "what": chk.get("contract", ""),
                            "bound": chk["bound"], "evaluations": chk["evaluations"],
                            "distinct_nontrivial": chk["distinct"],
                            "passed": not chk["failures"] and not chk["error"], "error": chk["error"],
                            "known_failing_cases": len(chk.get("known_failing", []))})
            if chk["error"]:
                undecided.append(("bounded:" + chk["name"], chk["error"][-600:]))
            for fl in chk["failures"][:2]:
                payload = {"property": prop, "bounded_check": chk["name"], "contract": chk.get("contract", ""),
                           "case": fl["case"], "observed": fl["detail"],
                           "replay_cmd": "./check %s --replay <this file>" % prop}
                violations.append(("bounded:" + chk["name"], write_replay(prop, payload), False))
    extra = cfg.get("extra")
    extra_cov = {}
    if extra:
        ev, viol, und = extra(tier, seed)
        extra_cov = ev
        for oid, payload in viol:
            payload.setdefault("property", prop)
            violations.append((oid, write_replay(prop, payload), payload.get("case") is None))
        undecided += und

    if args.update_baseline:
        dpath = os.path.join(HERE, "contracts", "baseline_dead_paths.json")
        alld = load_dead_baseline()
        alld.update(dead_now)
        with open(dpath, "w") as f:
            json.dump(alld, f, indent=1, sort_keys=True)
        path = os.path.join(HERE, "contracts", "baseline_obligations.json")
        allb = load_baseline()
        allb[prop] = sorted(discharged_now)
        with open(path, "w") as f:
            json.dump(allb, f, indent=1, sort_keys=True)
        say("baseline for %s: %d obligations" % (prop, len(discharged_now)))

    # 4. report
    wall = time.time() - t0
    level = cfg.get("level", "proof")
    fell_back = bool(undecided)
    if fell_back and level == "proof":
        level = "other"
    trusted = set()
    assumptions = set(cfg.get("assumptions", []))
    for r in presults:
        trusted.update(r["trusted"])
        assumptions.update(r["assumptions"])
    tb = sorted(trusted) + ["A-engine (pyvc VC generator)", "A-solver (z3 %s, cvc5)" % z3_version()]
    from pyvc import contracts as CC
    tb_notes = [CC.TRUSTED_NOTES[t] for t in sorted(trusted) if t in CC.TRUSTED_NOTES]
    coverage = {
        "obligations": n_obl, "discharged": n_dis,
        "checker_cmd": "./check %s --tier %s" % (prop, tier),
        "trusted_base": tb,
        "functions_under_contract": functions,
        "backends": backend_counts, "solver_time_s": round(solver_time, 3), "rlimit": rlimit,
        "undecided": [{"what": a, "why": b} for a, b in undecided],
        "cvc5_cross_check_of_discharged_obligations (thorough tier)": cross,
        "vacuity_guard": {"paths_checked": sum(paths_total.values()),
                          "provably_unreachable_paths (reviewed list: contracts/baseline_dead_paths.json)": dead_now},
        "bounded": bounded,
        "known_findings_printed": [e["id"] for e in active],
        "obligations_proved_outside_known_findings": kf_obligs,
        "samples": samples,
        "explanation": cfg.get("explanation", ""),
        "evaluations": sum(b.get("evaluations", 0) for b in bounded) + n_obl,
        "distinct_nontrivial": sum(b.get("distinct_nontrivial", 0) for b in bounded) + n_dis,
        "rule": "obligations: one per contract clause / loop invariant / safety condition generated from the "
                "current source; bounded: distinct concrete inputs with a non-empty child list",
        "exhaustive": False,
    }
    coverage.update(extra_cov)
    evidence = {
        "property_id": prop, "tier": tier if tier in ("quick", "thorough") else "quick", "seed": seed,
        "level": level, "coverage": coverage,
        "assumptions": sorted(assumptions) + tb_notes + cfg.get("notes", []),
        "wall_s": round(wall, 3), "violations": len(violations),
    }
    evdir = os.environ.get("PYVC_EVIDENCE_DIR") or os.path.join(HERE, "evidence")   # override: scratch-copy experiments only
    os.makedirs(evdir, exist_ok=True)
    with open(os.path.join(evdir, "%s.json" % prop), "w") as f:
        json.dump(evidence, f, indent=1, default=str)
    say("%s %s: %d/%d obligations discharged over %d functions (%s), %d bounded stand-ins, "
        "%d known findings, %.1fs" % (prop, tier, n_dis, n_obl, len(fids),
                                        ", ".join("%s=%d" % kv for kv in sorted(backend_counts.items())),
                                        len(bounded), len(active), wall))
    for oid, path, noinput in violations:
        say("failed obligation: %s" % oid)
        say("VIOLATION property=%s replay=%s%s" % (prop, os.path.relpath(path, HERE),
                                                    " no-failing-input-found" if noinput else ""))
    if violations:
        return 1
    if undecided:
        for a, b in undecided:
            say("UNDECIDED: %s: %s" % (a, b))
        # undecided with every bounded stand-in passing: the property held on everything explored,
        # but nothing is claimed as proved for the undecided part (evidence level lowered).
        if n_obl == 0 and not bounded:
            return 2
        if os.environ.get("PYVC_STRICT"):
            return 2
        return 0 if all(b["passed"] for b in bounded) and bounded else 2
    if n_obl == 0 and not extra_cov and not bounded:
        say("UNDECIDED: nothing was checked")
        return 2
    if n_obl == 0:
        say("note: no proof obligations for %s yet: bounded stand-ins only (evidence level: other)" % prop)
    return 0


def sidecar_gens():
    # generators are registered in the harness (venv side); the list of fids that have one
    # is mirrored in contracts.PROPERTIES[...]["bounded"] and ["searchable"].
    import contracts as sidecar
    out = set()
    for p in sidecar.PROPERTIES.values():
        out.update(p.get("bounded", []))
        out.update(p.get("searchable", []))
    return out


def z3_version():
    try:
        import z3
        return z3.get_version_string()
    except Exception:
        return "?"


if __name__ == "__main__":
    sys.exit(main())
