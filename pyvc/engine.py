# -*- coding: utf-8 -*-
"""
pyvc.engine -- symbolic execution of real Python function ASTs against sidecar
contracts; generates proof obligations (verification conditions) for z3/cvc5.

Overview (DESIGN.md section 3):

* forward symbolic execution with state merging at joins (formula size linear
  in the code); abrupt exits (return/raise/break/continue) are collected per
  syntactic context and merged at their handler;
* calls are modular: contract at the call site (requires -> obligation, havoc
  `modifies`, assume `ensures`, one successor per `raises` entry), unless the
  callee is marked `inline` (tiny helpers), in which case its real body is
  executed in place;
* loops are cut by invariants from the sidecar (entry / preservation
  obligations, havoc of everything the body may modify); loops over literal
  tuples are unrolled;
* safety obligations (deref / index / key / assert / callee-pre / shape) are
  emitted automatically;
* anything outside the subset raises Undecided -- loudly, never a pass.
"""
import ast
import builtins as _builtins
import z3

from .universe import Universe, peel
from . import contracts as C


class Undecided(Exception):
    """The engine cannot handle a construct: the function is *undecided*."""


class Poison(object):
    def __repr__(self):
        return "<POISON>"


POISON = Poison()
CONTAINER_CLASSES = ("list", "tuple", "dict", "set", "iterator")


# ---------------------------------------------------------------------------
class SV(object):
    """A symbolic value: z3 term of sort Val plus static information."""
    __slots__ = ("z", "kind", "cls", "py", "cases", "elem", "extra")

    def __init__(self, z, kind=None, cls=None, py=None, cases=None, elem=None, extra=None):
        self.z = z              # z3 Val term (None for python-side only values)
        self.kind = kind        # None|'none'|'bool'|'int'|'str'|'enum'|'ref'|'float'|'pytuple'|'callable'|'module'|'class'
        self.cls = cls          # class name for refs / enum class for enums
        self.py = py            # python payload (pytuple items, callable designator, constants)
        self.cases = cases      # for strings: [(z3 cond or None, python str)] finite case split
        self.elem = elem        # element type string for containers
        self.extra = extra

    def __repr__(self):
        return "SV(%s,%s,%s%s)" % (self.z, self.kind, self.cls, ",py=%r" % (self.py,) if self.py is not None else "")


class State(object):
    __slots__ = ("env", "heap", "ghost", "alloc", "pc", "fresh_refs")

    def __init__(self, env, heap, ghost, alloc, pc, fresh_refs=None):
        self.env = env
        self.heap = heap
        self.ghost = ghost
        self.alloc = alloc
        self.pc = pc            # list of z3 Bool (conjunction)
        self.fresh_refs = fresh_refs or []

    def copy(self):
        return State(dict(self.env), dict(self.heap), dict(self.ghost), self.alloc,
                     list(self.pc), list(self.fresh_refs))

    def assume(self, f):
        if z3.is_true(f):
            return
        self.pc.append(f)


class Acc(object):
    """Accumulator of abrupt outcomes for one syntactic context."""

    def __init__(self):
        self.returns = []     # [(State, SV)]
        self.raises = []      # [(State, SV exc)]
        self.breaks = []      # [State]
        self.continues = []   # [State]


class Obligation(object):
    def __init__(self, oid, kind, label, pc, goal, where="", note=""):
        self.oid = oid
        self.kind = kind
        self.label = label
        self.pc = pc
        self.goal = goal
        self.where = where
        self.note = note
        # filled by the solver
        self.status = None      # 'discharged'|'refuted'|'unknown'
        self.backend = None
        self.time = 0.0
        self.model = None


_QCACHE = {}


def _has_quantifier(f):
    key = f.get_id()
    r = _QCACHE.get(key)
    if r is not None:
        return r
    seen = set()
    stack = [f]
    res = False
    while stack:
        e = stack.pop()
        i = e.get_id()
        if i in seen:
            continue
        seen.add(i)
        if z3.is_quantifier(e):
            res = True
            break
        stack.extend(e.children())
    _QCACHE[key] = res
    return res


def _same(a, b):
    if a is b:
        return True
    try:
        return a.eq(b)
    except Exception:
        return False


# ---------------------------------------------------------------------------
class Engine(object):
    MAX_INLINE_DEPTH = 6

    def __init__(self, sources, registry=None, shapes=None):
        self.src = sources
        self.reg = registry if registry is not None else C.REG
        self.shapes = shapes if shapes is not None else C.SHAPES
        self.u = Universe()
        self.obligations = []
        self._closed = set()
        self.global_axioms = []
        self.assumptions_used = set()
        self.trusted_used = set()
        self.inlined = set()
        self.calls_resolved = []
        self.cur_fid = None
        self.cur_fid_top = None
        self.cur_contract = None
        self.depth = 0
        self.entry_state = None
        self.entry_env = None
        self._loop_counter = 0
        self._assert_counter = 0
        self._auto_counter = {}
        self.dunder_truthy = self._scan_truthy_classes()
        self.eq_classes = self._scan_eq_classes()
        for cname, (bases, members) in C.VIRTUAL.items():
            self.src.add_virtual(cname, bases, members)
        for cname, ci in self.src.classes.items():
            if ci.is_enum:
                self.u.register_enum(cname, ci.enum_members)
        # class ids deterministic
        for cname in sorted(self.src.classes):
            self.u.class_id(cname)
        for cname in CONTAINER_CLASSES + ("function", "object"):
            self.u.class_id(cname)
        self.path_meta = {}      # name of a merged path -> (function, source line of the statement being merged, branch, of)
        self.oracles = {}
        for name, (args, res) in C.ORACLES.items():
            sorts = [self._sort_of(a) for a in args] + [self._sort_of(res)]
            self.oracles[name] = (z3.Function(name, *sorts), args, res)

    # ------------------------------------------------------------------
    def _sort_of(self, t):
        if t.startswith("val:"):
            return self.u.Val
        return {"int": self.u.Int, "bool": self.u.Bool, "val": self.u.Val, "ref": self.u.Int,
                "str": self.u.Str}[t]

    def _scan_truthy_classes(self):
        out = set()
        for cname, ci in self.src.classes.items():
            for c in self.src.mro(cname):
                cc = self.src.classes.get(c)
                if cc and ("__len__" in cc.methods or "__bool__" in cc.methods
                           or "__nonzero__" in cc.methods):
                    out.add(cname)
        return out

    def _scan_eq_classes(self):
        out = set()
        for cname, ci in self.src.classes.items():
            if ci.is_enum:
                continue
            for c in self.src.mro(cname):
                cc = self.src.classes.get(c)
                if cc and "__eq__" in cc.methods:
                    out.add(cname)
        return out

    # ------------------------------------------------------------------
    # value constructors
    def mk_none(self):
        return SV(self.u.none, "none")

    def mk_bool(self, zb):
        if isinstance(zb, bool):
            zb = z3.BoolVal(zb)
        return SV(self.u.B(zb), "bool")

    def mk_int(self, zi):
        if isinstance(zi, int):
            zi = z3.IntVal(zi)
        return SV(self.u.I(zi), "int")

    def mk_str(self, text):
        return SV(self.u.S(self.u.lit(text)), "str", cases=[(None, text)])

    def mk_enum(self, cname, mname):
        return SV(self.u.enum_val(cname, mname), "enum", cls=cname)

    def mk_ref(self, zint, cls=None, elem=None):
        return SV(self.u.R(zint), "ref", cls=cls, elem=elem)

    def mk_const(self, value):
        if value is None:
            return self.mk_none()
        if value is True or value is False:
            return self.mk_bool(value)
        if isinstance(value, int):
            return self.mk_int(value)
        if isinstance(value, str):
            return self.mk_str(value)
        if isinstance(value, float):
            return SV(self.u.X(z3.IntVal(hash(value) % 1000003)), "float", py=value)
        if isinstance(value, bytes):
            return SV(self.u.fresh_val("bytes"), None)
        raise Undecided("constant %r" % (value,))

    def as_int(self, sv):
        return peel(self.u, sv.z, self.u.I, self.u.i)

    def as_boolz(self, sv):
        return peel(self.u, sv.z, self.u.B, self.u.b)

    def as_ref(self, sv):
        return peel(self.u, sv.z, self.u.R, self.u.r)

    def as_str(self, sv):
        return peel(self.u, sv.z, self.u.S, self.u.s)

    # ------------------------------------------------------------------
    # typing
    def parse_type(self, t):
        """type string -> (kind, cls, elem)"""
        if t is None or t == "any":
            return (None, None, None)
        if t in ("int", "bool", "str", "none", "float"):
            return (t, None, None)
        if t.startswith("opt:"):
            return (None, None, None) + (t[4:],)
        if t.startswith("ref:"):
            return ("ref", t[4:], None)
        if t.startswith("seq:"):
            return ("ref", "list", t[4:])
        if t.startswith("tuple:"):
            return ("ref", "tuple", t[6:])
        if t in ("dict", "set", "list", "tuple"):
            return ("ref", t, None)
        if t.startswith("dict:"):
            return ("ref", "dict", t[5:])
        if t.startswith("set:"):
            return ("ref", "set", t[4:])
        if t in self.u.enum_classes:
            return ("enum", t, None)
        if t.startswith("callable:"):
            return ("callable", None, None)
        if t in self.src.classes or t in self.src.virtual:
            return ("ref", t, None)
        raise Undecided("unknown type string %r" % t)

    def typed(self, z, t):
        """Attach static info of type string t to term z."""
        if t is None or t == "any":
            return SV(z)
        if t.startswith("opt:"):
            inner = self.typed(z, t[4:])
            return SV(z, None, cls=inner.cls, elem=inner.elem, extra=("opt", t[4:]))
        if t.startswith("callable:"):
            return SV(z, "callable", py=("contract", t[9:]))
        p = self.parse_type(t)
        return SV(z, p[0], cls=p[1], elem=p[2])

    def class_test(self, zref, cname):
        """z3 Bool: typeof(ref) is cname or a subclass."""
        if cname in CONTAINER_CLASSES or cname in ("function", "object"):
            return self.u.typeof(zref) == self.u.class_id(cname)
        subs = self.src.subclasses(cname)
        if not subs:
            return self.u.typeof(zref) == self.u.class_id(cname)
        return z3.Or([self.u.typeof(zref) == self.u.class_id(s) for s in subs])

    def type_pred(self, z, t, positive=True):
        """z3 Bool: value z inhabits type string t (shallow).  positive=False leaves out "object ids are positive"
        (used for checked casts: `typeof_is` in a precondition does not state it)."""
        u = self.u
        if t is None or t == "any":
            return z3.BoolVal(True)
        if t == "int":
            return u.is_I(z)
        if t == "bool":
            return u.is_B(z)
        if t == "str":
            return u.is_S(z)
        if t == "none":
            return u.is_none(z)
        if t == "float":
            return u.is_X(z)
        if t.startswith("opt:"):
            return z3.Or(u.is_none(z), self.type_pred(z, t[4:], positive))
        if t.startswith("callable:"):
            return z3.BoolVal(True)
        kind, cls, elem = self.parse_type(t)[:3]
        if kind == "enum":
            return u.is_enum_of(z, cls)
        if kind == "ref":
            if not positive:
                return z3.And(u.is_R(z), self.class_test(u.r(z), cls))
            return z3.And(u.is_R(z), u.r(z) > 0, self.class_test(u.r(z), cls))
        return z3.BoolVal(True)

    def field_type(self, cls, field):
        if cls is None:
            return None
        cc = getattr(self, "cur_contract_top", None)
        if cc is not None and cc.fields:
            for c in self.src.mro(cls):
                t = cc.fields.get("%s.%s" % (c, field))
                if t:
                    return t
        for c in self.src.mro(cls):
            sh = self.shapes.get(c)
            if sh and field in sh:
                return sh[field]
        # virtual class members
        if cls in self.src.virtual:
            for b in self.src.virtual[cls]["bases"]:
                t = self.field_type(b, field)
                if t:
                    return t
        return None

    # ------------------------------------------------------------------
    # obligations
    def oblige(self, st, kind, label, goal, where="", note=""):
        if self.suppress:
            return
        oid = "%s#%s.%s" % (self.cur_fid_top, kind, label)
        if self.cur_fid != self.cur_fid_top and kind not in ("post", "frame", "raises", "raises-only"):
            where = (where + " in inlined " + self.cur_fid).strip()
        n = self._auto_counter.get(oid, 0)
        self._auto_counter[oid] = n + 1
        if n:
            oid = "%s~%d" % (oid, n)
        self.obligations.append(Obligation(oid, kind, label, list(st.pc), goal, where, note))

    def auto_label(self, node, what):
        # stable label: kind + ordinal of that kind inside the function (not line numbers)
        key = (self.cur_fid_top, what)
        k = self._auto_counter.get(key, 0)
        self._auto_counter[key] = k + 1
        return "%s%d" % (what, k)

    # ------------------------------------------------------------------
    # truthiness / equality
    def truthy(self, sv, st=None):
        u = self.u
        k = sv.kind
        if k == "bool":
            return self.as_boolz(sv)
        if k == "int":
            return self.as_int(sv) != 0
        if k == "none":
            return z3.BoolVal(False)
        if k == "enum":
            return z3.BoolVal(True)
        if k in ("callable", "module", "class"):
            if sv.z is None:
                return z3.BoolVal(True)
        if k == "pytuple":
            return z3.BoolVal(len(sv.py) > 0)
        if k == "str":
            if sv.cases is not None:
                return self._fold_cases(sv, lambda s: z3.BoolVal(len(s) > 0), z3.BoolSort())
            return u.str_len(self.as_str(sv)) > 0
        if k == "float":
            return u.fresh_bool("float_truthy")
        if k == "ref":
            return self._ref_truthy(sv, st)
        # unknown kind: general case split
        z = sv.z
        if z is None:
            raise Undecided("truthiness of %r" % (sv,))
        refpart = self._ref_truthy(SV(z, "ref", cls=sv.cls, elem=sv.elem), st)
        return z3.If(u.is_none(z), False,
               z3.If(u.is_B(z), u.b(z),
               z3.If(u.is_I(z), u.i(z) != 0,
               z3.If(u.is_S(z), u.str_len(u.s(z)) > 0,
               z3.If(u.is_R(z), refpart, True)))))

    def _ref_truthy(self, sv, st):
        u = self.u
        r = self.as_ref(sv)
        if sv.cls == "tuple":
            return self.tuple_len_f()(r) > 0
        if sv.cls == "list":
            return self.heap_array(st, "$len")[r] > 0 if st is not None else u.fresh_bool("t")
        if sv.cls in ("dict", "set"):
            return self.heap_array(st, "$dlen")[r] > 0 if st is not None else u.fresh_bool("t")
        if sv.cls is not None and sv.cls not in self.dunder_truthy:
            subs = self.src.subclasses(sv.cls) if sv.cls in self.src.classes or sv.cls in self.src.virtual else []
            if not any(s in self.dunder_truthy for s in subs):
                return z3.BoolVal(True)
        # class unknown or defines __len__/__bool__
        if sv.cls is None and st is not None:
            t = u.typeof(r)
            cont = t == u.class_id("list")
            isdict = z3.Or([t == u.class_id(c) for c in ("dict", "set")])
            istup = t == u.class_id("tuple")
            plain = z3.And([t != u.class_id(c) for c in sorted(self.dunder_truthy)] or [z3.BoolVal(True)])
            opaque = u.uf("obj_truthy", u.Int, u.Bool)(r)
            return z3.If(istup, self.tuple_len_f()(r) > 0,
                         z3.If(cont, self.heap_array(st, "$len")[r] > 0,
                               z3.If(isdict, self.heap_array(st, "$dlen")[r] > 0, z3.If(plain, True, opaque))))
        return u.uf("obj_truthy", u.Int, u.Bool)(r)

    def _fold_cases(self, sv, f, sort):
        """Apply python function f (str -> z3 term) over a finite case split."""
        cases = sv.cases
        out = f(cases[-1][1])
        for cond, text in reversed(cases[:-1]):
            out = z3.If(cond, f(text), out)
        return out

    def py_eq(self, a, b, st, identity=False):
        """z3 Bool for a == b (or a is b)."""
        u = self.u
        if a.kind == "pytuple" and b.kind == "pytuple":
            if len(a.py) != len(b.py):
                return z3.BoolVal(False)
            return z3.And([self.py_eq(x, y, st, identity) for x, y in zip(a.py, b.py)] or [z3.BoolVal(True)])
        if a.kind == "pytuple" or b.kind == "pytuple":
            raise Undecided("comparison of tuple with non-tuple")
        if a.z is None or b.z is None:
            if a.kind == b.kind and a.py == b.py:
                return z3.BoolVal(True)
            raise Undecided("comparison of python-side values %r %r" % (a, b))
        if not identity:
            # Status.__eq__ accepts strings (compare by name)
            for x, y in ((a, b), (b, a)):
                if x.kind == "enum" and y.kind == "str":
                    return self._enum_eq_str(x, y)
            if a.kind == "str" and b.kind == "str" and a.cases is not None and b.cases is not None:
                return self._fold_cases(a, lambda s: self._fold_cases(
                    b, lambda t: z3.BoolVal(s == t), z3.BoolSort()), z3.BoolSort())
            for x in (a, b):
                if x.kind == "ref" and x.cls is not None and x.cls not in CONTAINER_CLASSES:
                    involved = [x.cls] + (self.src.subclasses(x.cls) if x.cls in self.src.classes else [])
                    if any(c in self.eq_classes for c in involved):
                        other = b if x is a else a
                        if other.kind == "none":
                            continue
                        if a.z.sort() != u.Val or b.z.sort() != u.Val:
                            raise Undecided("== on class %s with user-defined __eq__" % x.cls)
                        # user-defined __eq__: an uninterpreted relation per class, known only to be reflexive
                        self.assumptions_used.add("A-usereq: %s.__eq__ is a pure relation that holds between an object and "
                                                  "itself; nothing else is assumed about it" % x.cls)
                        rel = u.uf("usereq_%s" % x.cls, u.Val, u.Val, u.Bool)
                        return z3.Or(a.z == b.z, rel(a.z, b.z))
                if x.kind == "ref" and x.cls in ("list", "tuple", "dict", "set"):
                    other = b if x is a else a
                    if other.kind == "none":
                        continue
                    return self.container_eq(a, b, st)
        return a.z == b.z

    def container_eq(self, a, b, st):
        u = self.u
        if a.cls in ("list", "tuple") and b.cls == a.cls:
            k = u.fresh_int("k")
            la, lb = self.seq_len(st, a), self.seq_len(st, b)
            ea, eb = self.seq_elems(st, a), self.seq_elems(st, b)
            return z3.And(la == lb, z3.ForAll([k], z3.Implies(z3.And(0 <= k, k < la), ea(k) == eb(k))))
        raise Undecided("structural == on %s/%s" % (a.cls, b.cls))

    def _enum_eq_str(self, e, s):
        u = self.u
        if s.cases is None:
            raise Undecided("enum == symbolic string")
        ids = u.enum_classes[e.cls]

        def f(text):
            hits = [i for i in ids if u.enum_names[i][1] == text]
            if not hits:
                return z3.BoolVal(False)
            return u.e(e.z) == hits[0]
        return self._fold_cases(s, f, z3.BoolSort())

    # ------------------------------------------------------------------
    # heap primitives
    def heap_array(self, st, field):
        if field not in st.heap:
            # lazily created fields share one initial symbolic array per name
            st.heap[field] = self.initial_heap_array(field)
        return st.heap[field]

    def initial_heap_array(self, field):
        u = self.u
        sort = {"$len": u.LenSort, "$at": u.AtSort, "$has": u.HasSort, "$val": u.DValSort,
                "$dlen": u.LenSort, "$klen": u.LenSort, "$kat": u.AtSort}.get(field, u.FieldSort)
        arr = z3.Const("H0_%s" % field.replace("$", "_"), sort)
        if field not in self._closed:
            # the entry heap is closed: whatever it stores was allocated before entry
            self._closed.add(field)
            a0 = z3.Int("alloc0")
            r = z3.Int("r!c")
            k = z3.Int("k!c")
            x = z3.Const("x!c", u.Val)
            # (object ids are positive: R(r) with r <= 0 denotes nothing, so a stored reference is 0 < id < alloc0)
            # only objects that existed at entry (r < alloc0): the "entry value" of a field of an object allocated
            # later is whatever its constructor contract says (it may well refer to other new objects)
            old_obj = z3.And(r > 0, r < a0)
            if field == "$at":
                v = arr[r][k]
                self.global_axioms.append(z3.ForAll([r, k], z3.Implies(z3.And(old_obj, u.is_R(v)), z3.And(u.r(v) > 0, u.r(v) < a0)),
                                                    patterns=[arr[r][k]]))
            elif field == "$val":
                v = arr[r][x]
                self.global_axioms.append(z3.ForAll([r, x], z3.Implies(z3.And(old_obj, u.is_R(v)), z3.And(u.r(v) > 0, u.r(v) < a0)),
                                                    patterns=[arr[r][x]]))
            elif field in ("$len", "$has", "$dlen", "$klen"):
                pass
            elif field == "$kat":
                v = arr[r][k]
                self.global_axioms.append(z3.ForAll([r, k], z3.Implies(z3.And(old_obj, u.is_R(v)), z3.And(u.r(v) > 0, u.r(v) < a0)),
                                                    patterns=[arr[r][k]]))
            else:
                v = arr[r]
                self.global_axioms.append(z3.ForAll([r], z3.Implies(z3.And(old_obj, u.is_R(v)), z3.And(u.r(v) > 0, u.r(v) < a0)),
                                                    patterns=[arr[r]]))
                self.entry_typing_axioms(field, arr, old_obj, r, k)
        return arr

    def entry_typing_axioms(self, field, arr, old_obj, r, k):
        """The entry heap is well-typed with respect to the declared shapes.  Every concrete read of a field already
        assumes the declared type of what it reads (read_field); these axioms state the same for the entry heap under
        a quantifier (a clause `forall e: ... xs[e].table ...` reads fields of objects no statement ever touches)."""
        u = self.u
        for cname in sorted(self.shapes):
            t = (self.shapes.get(cname) or {}).get(field)
            if t is None or t == "any" or cname not in self.src.classes:
                continue
            try:
                v = arr[r]
                owner = z3.And(old_obj, self.class_test(r, cname))
                self.global_axioms.append(z3.ForAll([r], z3.Implies(owner, self.type_pred(v, t)), patterns=[arr[r]]))
                inner = t[4:] if t.startswith("opt:") else t
                if inner.startswith("seq:") and inner[4:] not in ("any", ""):
                    at0 = z3.Const("H0__at", u.AtSort)
                    ln0 = z3.Const("H0__len", u.LenSort)
                    el = at0[u.r(v)][k]
                    self.global_axioms.append(z3.ForAll(
                        [r, k], z3.Implies(z3.And(owner, u.is_R(v), k >= 0, k < ln0[u.r(v)]), self.type_pred(el, inner[4:])),
                        patterns=[el]))
            except Undecided:
                continue

    def read_field(self, st, obj, field, cls_hint=None):
        u = self.u
        r = self.as_ref(obj)
        arr = self.heap_array(st, field)
        z = arr[r]
        t = self.field_type(obj.cls or cls_hint, field)
        sv = self.typed(z, t)
        if t is not None and t != "any":
            st.assume(self.type_pred(z, t))
        if sv.kind in (None, "ref"):
            st.assume(z3.Implies(u.is_R(z), z3.And(u.r(z) < st.alloc)))
        return sv

    def write_field(self, st, obj, field, value):
        r = self.as_ref(obj)
        if value.z is None:
            raise Undecided("storing python-side value into field %s" % field)
        arr = self.heap_array(st, field)
        st.heap[field] = z3.Store(arr, r, value.z)
        t = self.field_type(obj.cls, field)
        if t is not None and t != "any" and not self.in_spec:
            goal = self.type_pred(value.z, t)
            if not z3.is_true(z3.simplify(goal)):
                self.oblige(st, "shape", "%s.%s" % (obj.cls, field) , goal,
                            note="value stored in %s.%s has declared type %s" % (obj.cls, field, t))

    def alloc(self, st, cls, elem=None):
        u = self.u
        n = u.fresh_int("new_%s" % cls)
        st.assume(n == st.alloc)
        st.assume(u.typeof(n) == u.class_id(cls))
        st.alloc = n + 1
        sv = self.mk_ref(n, cls, elem)
        st.fresh_refs.append(n)
        return sv

    def new_list(self, st, items, cls="list", elem=None):
        """Allocate a list/tuple object with the given SV items."""
        sv = self.alloc(st, cls, elem)
        r = self.as_ref(sv)
        if cls == "tuple":
            st.assume(self.tuple_len_f()(r) == len(items))
            for k, it in enumerate(items):
                if it.z is None:
                    raise Undecided("python-side value inside a tuple")
                st.assume(self.tuple_item_f()(r, z3.IntVal(k)) == it.z)
            return sv
        st.heap["$len"] = z3.Store(self.heap_array(st, "$len"), r, z3.IntVal(len(items)))
        elems = self.heap_array(st, "$at")[r]
        for k, it in enumerate(items):
            if it.z is None:
                raise Undecided("python-side value inside a list")
            elems = z3.Store(elems, z3.IntVal(k), it.z)
        st.heap["$at"] = z3.Store(st.heap["$at"], r, elems)
        return sv

    def new_symbolic_seq(self, st, cls="list", elem=None, length=None):
        """Allocate a list whose content is unconstrained (fresh)."""
        sv = self.alloc(st, cls, elem)
        r = self.as_ref(sv)
        n = length if length is not None else self.u.fresh_int("len")
        st.assume(n >= 0)
        if cls == "tuple":
            st.assume(self.tuple_len_f()(r) == n)
            return sv
        st.heap["$len"] = z3.Store(self.heap_array(st, "$len"), r, n)
        st.heap["$at"] = z3.Store(self.heap_array(st, "$at"), r,
                                  self.u.fresh("elems", self.u.ElemsSort))
        return sv

    # tuples are immutable: their content is heap-independent (no frame reasoning needed)
    def tuple_len_f(self):
        return self.u.uf("tuple_len", self.u.Int, self.u.Int)

    def tuple_item_f(self):
        return self.u.uf("tuple_item", self.u.Int, self.u.Int, self.u.Val)

    def seq_len(self, st, seq):
        if seq.cls == "tuple":
            return self.tuple_len_f()(self.as_ref(seq))
        if seq.cls == "dictkeys":
            return self.heap_array(st, "$klen")[self.as_ref(seq)]
        return self.heap_array(st, "$len")[self.as_ref(seq)]

    def seq_elems(self, st, seq):
        """z3 function/array  index -> Val  for the current content of a sequence."""
        r = self.as_ref(seq)
        if seq.cls == "tuple":
            f = self.tuple_item_f()
            return lambda k: f(r, k)
        if seq.cls == "dictkeys":
            karr = self.heap_array(st, "$kat")[r]
            return lambda k: karr[k]
        arr = self.heap_array(st, "$at")[r]
        return lambda k: arr[k]

    def seq_get(self, st, seq, zidx):
        u = self.u
        z = self.seq_elems(st, seq)(zidx)
        sv = self.typed(z, seq.elem)
        if seq.elem and seq.elem != "any":
            st.assume(z3.Implies(z3.And(0 <= zidx, zidx < self.seq_len(st, seq)),
                                 self.type_pred(z, seq.elem)))
        if sv.kind in (None, "ref"):
            st.assume(z3.Implies(u.is_R(z), u.r(z) < st.alloc))
        return sv

    def seq_append(self, st, seq, item):
        if item.z is None:
            raise Undecided("appending python-side value")
        r = self.as_ref(seq)
        n = self.heap_array(st, "$len")[r]
        elems = self.heap_array(st, "$at")[r]
        st.heap["$at"] = z3.Store(st.heap["$at"], r, z3.Store(elems, n, item.z))
        st.heap["$len"] = z3.Store(st.heap["$len"], r, n + 1)

    def seq_len_nonneg(self, st, seq):
        st.assume(self.seq_len(st, seq) >= 0)

    # ------------------------------------------------------------------
    # merging
    def merge(self, states):
        states = [s for s in states if s is not None]
        if not states:
            return None
        if len(states) == 1:
            return states[0]
        # a local that is a tuple literal on one path and a term (None, a loop-carried tuple value) on another: the
        # literal is stored as a tuple object on its own path first, so that the merged value is an ordinary term
        if not self.in_spec:
            all_names = set()
            for s in states:
                all_names.update(s.env)
            for name in all_names:
                vals = [s.env.get(name) for s in states]
                live = [v for v in vals if v is not None and v is not POISON]
                if any(v.kind == "pytuple" for v in live) and any(v.z is not None for v in live):
                    for s in states:
                        v = s.env.get(name)
                        if v is not None and v is not POISON and v.kind == "pytuple":
                            try:
                                s.env[name] = self.box(s, v)
                            except Undecided:
                                pass
        # common pc prefix
        n = min(len(s.pc) for s in states)
        k = 0
        while k < n and all(_same(states[0].pc[k], s.pc[k]) for s in states[1:]):
            k += 1
        prefix = list(states[0].pc[:k])
        tails = []
        for s in states:
            tl = s.pc[k:]
            if not tl:
                tails.append(z3.BoolVal(True))
            elif self.in_spec or (len(tl) == 1 and z3.is_const(tl[0])):
                # (contract clauses: no auxiliary names, their definitions could be lost inside quantifiers)
                tails.append(z3.And(tl) if len(tl) > 1 else tl[0])
            else:
                # name the path condition once; Ifs and the disjunction use the name.
                # quantified facts stay outside the definition (only implied by the name)
                nm = self.u.fresh_bool("path")
                if not getattr(self, "suppress", False):
                    self.path_meta[str(nm)] = (getattr(self, "cur_fid", None), getattr(self, "cur_line", 0),
                                               len(tails), len(states))
                qf = [f for f in tl if not _has_quantifier(f)]
                qs = [f for f in tl if _has_quantifier(f)]
                # SOUNDNESS: the name only *implies* its path's facts (one of the names holds, see the disjunction
                # below).  An equivalence with the quantifier-free part alone would force a name true whenever that
                # part holds, also on executions that took another branch whose distinguishing condition is quantified.
                if qf:
                    prefix.append(z3.Implies(nm, z3.And(qf)))
                for f in qs:
                    prefix.append(z3.Implies(nm, f))
                tails.append(nm)
        out = State({}, {}, {}, None, prefix + [z3.Or(tails)])
        out_tails = tails

        def ite(vals):
            res = vals[-1]
            for cond, v in zip(reversed(tails[:-1]), reversed(vals[:-1])):
                res = z3.If(cond, v, res)
            return res

        # env
        names = set()
        for s in states:
            names.update(s.env)
        for name in names:
            vals = [s.env.get(name, POISON) for s in states]
            out.env[name] = self.merge_values(vals, tails)
        # heap
        keys = set()
        for s in states:
            keys.update(s.heap)
        for key in keys:
            arrs = [self.heap_array(s, key) for s in states]
            if all(_same(arrs[0], a) for a in arrs[1:]):
                out.heap[key] = arrs[0]
            else:
                out.heap[key] = ite(arrs)
        gk = set()
        for s in states:
            gk.update(s.ghost)
        for key in gk:
            vals = [s.ghost.get(key) for s in states]
            if any(v is None for v in vals):
                raise Undecided("ghost %s missing on a path" % key)
            out.ghost[key] = vals[0] if all(_same(vals[0], v) for v in vals[1:]) else ite(vals)
        allocs = [s.alloc for s in states]
        out.alloc = allocs[0] if all(_same(allocs[0], a) for a in allocs[1:]) else ite(allocs)
        seen = []
        for s in states:
            for r in s.fresh_refs:
                if not any(_same(r, x) for x in seen):
                    seen.append(r)
        out.fresh_refs = seen
        self._last_tails = tails
        return out

    def merge_values(self, vals, tails):
        if any(v is POISON for v in vals):
            return POISON
        first = vals[0]
        if all(v is first for v in vals[1:]):
            return first
        if all(v.z is not None for v in vals):
            if all(_same(first.z, v.z) for v in vals[1:]) and all(v.kind == first.kind for v in vals):
                return first
            res = vals[-1].z
            for cond, v in zip(reversed(tails[:-1]), reversed(vals[:-1])):
                res = z3.If(cond, v.z, res)
            kind = first.kind if all(v.kind == first.kind for v in vals) else None
            cls = first.cls if all(v.cls == first.cls for v in vals) else self._common_class([v.cls for v in vals])
            elem = first.elem if all(v.elem == first.elem for v in vals) else None
            cases = None
            if kind == "str" and all(v.cases is not None for v in vals):
                cases = []
                for cond, v in zip(tails, vals):
                    for c2, text in v.cases:
                        cc = cond if c2 is None else z3.And(cond, c2)
                        cases.append((cc, text))
                if len(cases) > 12:
                    cases = None
            if kind is None:
                # optional of one non-none kind keeps class info for call resolution
                nn = [v for v in vals if v.kind != "none"]
                if nn and all(v.kind == nn[0].kind for v in nn) and nn[0].kind == "ref":
                    cls = nn[0].cls if all(v.cls == nn[0].cls for v in nn) else self._common_class([v.cls for v in nn])
                    elem = nn[0].elem if all(v.elem == nn[0].elem for v in nn) else None
                    return SV(res, None, cls=cls, elem=elem, extra=("opt", None))
            return SV(res, kind, cls=cls, elem=elem, cases=cases)
        # python-side values
        if all(v.z is None and v.kind == first.kind and v.py == first.py for v in vals):
            return first
        if all(v.kind == "pytuple" for v in vals) and len(set(len(v.py) for v in vals)) == 1:
            items = []
            for k in range(len(first.py)):
                items.append(self.merge_values([v.py[k] for v in vals], tails))
            if any(i is POISON for i in items):
                return POISON
            return SV(None, "pytuple", py=tuple(items))
        return POISON

    def _common_class(self, classes):
        classes = [c for c in classes if c]
        if not classes:
            return None
        first = classes[0]
        for cand in self.src.mro(first):
            if all(self.src.is_subclass(c, cand) for c in classes):
                return cand
        return None

    # ------------------------------------------------------------------
    in_spec = False
