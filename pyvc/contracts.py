# -*- coding: utf-8 -*-
"""
pyvc.contracts -- the sidecar contract model.

A contract is attached to a function id ``module:qualname`` of the real code
(or to an abstract id ``abs:Name`` for user code / library code / a dynamic
dispatch target).  Clauses are Python expression strings in the contract
language (see DESIGN.md section 3.8):

    result, old(e), forall(lambda k: e), exists(lambda k: e), implies(a, b),
    iff(a, b), len(x), x[k], x.f, ghost variables G_<name>, spec functions.

Nothing in this module knows z3.
"""


class Loop(object):
    def __init__(self, invariant=None, modifies=None, unroll=False, ghost_updates=None,
                 frame=None, broadcast=None, ghost=None):
        self.ghost = dict(ghost or {})     # loop-local ghost ints: name -> (initial expr, end-of-iteration update expr)
        self.broadcast = broadcast        # (contract id, expected method name | None)
        self.invariant = _labelled(invariant)
        self.modifies = modifies          # optional explicit havoc set (field names)
        self.unroll = unroll
        self.frame = frame or []          # field names whose content is kept for objects outside `frame_refs`
        self.ghost_updates = ghost_updates or []


def _labelled(clauses):
    """Accept dict(label->expr), list of (label, expr) or list of expr."""
    if clauses is None:
        return []
    if isinstance(clauses, dict):
        return list(clauses.items())
    out = []
    for k, c in enumerate(clauses):
        if isinstance(c, tuple):
            out.append(c)
        else:
            out.append(("c%d" % k, c))
    return out


class Raises(object):
    def __init__(self, exc, when=None, ensures=None, label=None):
        self.exc = exc
        self.when = when          # expression over the pre-state (None: nondeterministic)
        self.ensures = _labelled(ensures)
        self.label = label or exc


class Contract(object):
    def __init__(self, fid, params=None, requires=None, ensures=None, raises=None,
                 modifies=None, loops=None, inline=False, pure=False, trusted=False,
                 self_classes=None, callsites=None, exprs=None, result=None,
                 props=None, lookup_raises=False, assert_raises=False, locals=None,
                 doc="", fresh_result=None, allow_raises=None, with_items=None,
                 spec_only=False, opaque_calls=None, strict_raises=True,
                 pos_params=None, vararg=None, kwarg=None, defaults=None,
                 frame_exempt=None, assume=None, globals=None, ghost_stores=None, fields=None):
        self.fid = fid
        self.params = dict(params or {})        # name -> type string
        self.requires = _labelled(requires)
        self.ensures = _labelled(ensures)
        self.raises = list(raises or [])
        self.modifies = list(modifies or [])
        self.loops = list(loops or [])
        self.inline = inline
        self.pure = pure
        self.trusted = trusted                  # assumed (A), never proved
        self.self_classes = self_classes
        self.callsites = dict(callsites or {})  # unparsed callee expr -> contract id
        self.exprs = dict(exprs or {})          # unparsed expr -> override spec
        self.result = result                    # type string of the result
        # property ids served; "C09:label1,label2" serves C09 with these postcondition clauses only (all other
        # obligation kinds -- invariants, frames, safety -- are always included)
        self.props, self.prop_clauses = [], {}
        for p_ in (props or []):
            if ":" in p_:
                pid, labels = p_.split(":", 1)
                self.props.append(pid)
                self.prop_clauses[pid] = set(x.strip() for x in labels.split(","))
            else:
                self.props.append(p_)
        self.lookup_raises = lookup_raises
        self.assert_raises = assert_raises
        self.locals = dict(locals or {})
        # "Class.field" -> type string: narrower static type of a field inside this function only (the state this
        # function is called in); every read assumes it, so state the same as a `requires` clause
        self.fields = dict(fields or {})
        self.doc = doc
        self.fresh_result = fresh_result        # class name: result is a freshly allocated object
        self.allow_raises = allow_raises        # exception classes allowed to escape without `raises` entry
        self.with_items = dict(with_items or {})
        self.spec_only = spec_only
        self.opaque_calls = dict(opaque_calls or {})
        self.strict_raises = strict_raises
        self.pos_params = pos_params            # parameter order for abstract contracts
        self.vararg = vararg
        self.kwarg = kwarg
        self.defaults = dict(defaults or {})    # name -> python constant
        self.frame_exempt = list(frame_exempt or [])
        self.globals = dict(globals or {})      # name -> ("singleton", cls) | ("contract", id) | constant
        self.ghost_stores = list(ghost_stores or [])   # [(ghost array, index expr, value expr)]: functional update
        self.assume = _labelled(assume)         # assumptions local to the proof of this function (listed in evidence)


REG = {}            # fid -> Contract
SPECFUNS = {}       # name -> python callable (engine, state, *SV) -> SV
ORACLES = {}        # name -> (arg sorts as strings, result sort string)
GHOSTS = {}         # name -> sort string ("int", "seq")
VIRTUAL = {}        # virtual class -> (bases, members)
SHAPES = {}         # class -> {field: type string}
TRUSTED_NOTES = {}  # fid/abstract id -> human text for evidence
GLOBALS = {}        # module-level name -> python constant | ("sentinel", n)
EXT_EXC = {}        # exception class defined outside behave -> base class name
MACROS = {}         # name -> (param names, contract-language text): expanded in place in clauses


def contract(fid, **kw):
    c = Contract(fid, **kw)
    REG[fid] = c
    return c


def specfun(name):
    def deco(f):
        SPECFUNS[name] = f
        return f
    return deco


def oracle(name, args, result):
    ORACLES[name] = (list(args), result)


def ghost(name, sort="int"):
    GHOSTS[name] = sort


def virtual_class(name, bases, members):
    VIRTUAL[name] = (list(bases), list(members))


SHAPE_CONFLICTS = []


def shape(cls, **fields):
    """Declare field types of a class.  Declarations of several contract modules are merged; a field declared twice
    must get the same type ("any" may be refined once, a refined type is never widened back to "any")."""
    cur = SHAPES.setdefault(cls, {})
    for f, t in fields.items():
        old = cur.get(f)
        if old is None or old == t or old == "any":
            cur[f] = t
        elif t == "any":
            pass                                    # keep the more precise earlier declaration
        else:
            SHAPE_CONFLICTS.append((cls, f, old, t))
            cur[f] = t


def trusted_note(key, text):
    TRUSTED_NOTES[key] = text


def global_const(name, value):
    GLOBALS[name] = value


def macro(name, params, text):
    MACROS[name] = (list(params), text)


def external_exception(name, base="Exception"):
    """An exception class of a third-party package that behave raises or catches by name."""
    EXT_EXC[name] = base
