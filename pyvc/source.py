# -*- coding: utf-8 -*-
"""
pyvc.source -- read the *real* sources of behave from the working tree on every
run and build the tables the verifier needs: function ASTs by
``module:qualname``, a class table (bases, methods, properties, class-level
constants), enum members and the exception hierarchy.

Nothing here imports behave; only ``ast`` is used.  The repository root is
taken from $VERIF_REPO (default /repo).
"""
import ast
import builtins
import hashlib
import os

REPO = os.environ.get("VERIF_REPO", "/repo")

# modules that the class table is built from (order matters only for duplicate
# short class names: later duplicates are registered as "Name@module").
MODULES = [
    "behave.model_core", "behave.model", "behave.runner", "behave.capture",
    "behave.log_capture", "behave.exception", "behave.api.pending_step",
    "behave.parser", "behave.step_registry", "behave.matchers",
    "behave.runner_util", "behave.tag_matcher", "behave.tag_expression.v1",
    "behave.tag_expression.model", "behave.tag_expression.parser",
    "behave.tag_expression.builder", "behave.formatter.base",
    "behave.formatter.rerun", "behave.formatter.json", "behave.formatter.plain",
    "behave.formatter.progress", "behave.formatter._registry",
    "behave.reporter.base", "behave.reporter.summary", "behave.reporter.junit",
    "behave.summary", "behave.model_visitor", "behave.fixture",
    "behave.userdata", "behave.configuration", "behave.json_parser",
    "behave.contrib.scenario_autoretry", "behave.__main__", "behave.textutil",
    "behave.formatter.ansi_escapes", "behave.model_describe",
]


def module_path(modname):
    base = os.path.join(REPO, *modname.split("."))
    if os.path.isfile(base + ".py"):
        return base + ".py"
    return os.path.join(base, "__init__.py")


class ClassInfo(object):
    def __init__(self, name, module, node):
        self.name = name
        self.module = module
        self.node = node
        self.bases = []          # short names
        self.methods = {}        # name -> FunctionDef
        self.properties = {}     # name -> (getter FunctionDef, setter FunctionDef|None)
        self.consts = {}         # name -> ast expr (class-level assignment)
        self.static = set()
        self.classm = set()
        self.is_enum = False
        self.enum_members = []   # [(name, value)]

    def __repr__(self):
        return "<ClassInfo %s(%s)>" % (self.name, ",".join(self.bases))


def _base_name(node):
    if isinstance(node, ast.Name):
        return node.id
    if isinstance(node, ast.Attribute):
        return node.attr
    return None


def _decorators(fn):
    out = []
    for d in fn.decorator_list:
        if isinstance(d, ast.Name):
            out.append(d.id)
        elif isinstance(d, ast.Attribute):
            # x.setter
            out.append("%s.%s" % (_base_name(d.value), d.attr))
        elif isinstance(d, ast.Call):
            out.append(_base_name(d.func) or "?")
    return out


class Sources(object):
    """All sources, parsed once per run."""

    def __init__(self, modules=None):
        self.modules = {}        # modname -> ast.Module
        self.text = {}           # modname -> source text
        self.classes = {}        # short (or Name@module) -> ClassInfo
        self.functions = {}      # "module:qualname" -> FunctionDef
        self.virtual = {}        # virtual class name -> {"bases": [...], "members": [...]}
        self.missing = []
        for m in (modules or MODULES):
            self._load(m)

    # ------------------------------------------------------------------
    def _load(self, modname):
        path = module_path(modname)
        try:
            with open(path, "r", encoding="utf-8") as f:
                text = f.read()
            tree = ast.parse(text, filename=path)
        except (OSError, SyntaxError) as e:
            self.missing.append((modname, repr(e)))
            return
        self.modules[modname] = tree
        self.text[modname] = text
        for node in tree.body:
            self._visit_toplevel(modname, node)

    def _visit_toplevel(self, modname, node):
        if isinstance(node, (ast.FunctionDef, ast.AsyncFunctionDef)):
            self.functions["%s:%s" % (modname, node.name)] = node
        elif isinstance(node, ast.ClassDef):
            self._visit_class(modname, node)
        elif isinstance(node, ast.Assign) and len(node.targets) == 1 and isinstance(node.targets[0], ast.Name):
            self.module_consts[(modname, node.targets[0].id)] = node.value
        elif isinstance(node, (ast.If, ast.Try)):
            for sub in ast.iter_child_nodes(node):
                if isinstance(sub, (ast.FunctionDef, ast.ClassDef)):
                    self._visit_toplevel(modname, sub)

    def _visit_class(self, modname, node):
        ci = ClassInfo(node.name, modname, node)
        ci.bases = [b for b in (_base_name(x) for x in node.bases) if b]
        ci.is_enum = "Enum" in ci.bases
        for item in node.body:
            if isinstance(item, (ast.FunctionDef, ast.AsyncFunctionDef)):
                decos = _decorators(item)
                qual = "%s:%s.%s" % (modname, node.name, item.name)
                if "property" in decos:
                    ci.properties[item.name] = (item, None)
                    self.functions[qual] = item
                elif any(d.endswith(".setter") for d in decos):
                    g = ci.properties.get(item.name, (None, None))[0]
                    ci.properties[item.name] = (g, item)
                    self.functions[qual + ".setter"] = item
                else:
                    ci.methods[item.name] = item
                    self.functions[qual] = item
                    if "staticmethod" in decos:
                        ci.static.add(item.name)
                    if "classmethod" in decos:
                        ci.classm.add(item.name)
            elif isinstance(item, ast.Assign) and len(item.targets) == 1 \
                    and isinstance(item.targets[0], ast.Name):
                name = item.targets[0].id
                ci.consts[name] = item.value
                if ci.is_enum and not name.startswith("_"):
                    try:
                        ci.enum_members.append((name, ast.literal_eval(item.value)))
                    except Exception:
                        pass
        key = node.name
        if key in self.classes:
            key = "%s@%s" % (node.name, modname)
        self.classes[key] = ci

    # ------------------------------------------------------------------
    ext_exc = {}
    module_consts = {}      # (module, name) -> value expression of a module-level `NAME = <expr>`

    def add_virtual(self, name, bases, members):
        self.virtual[name] = {"bases": list(bases), "members": list(members)}

    def mro(self, cname):
        """Simple left-to-right depth-first linearisation without duplicates
        (sufficient for behave's hierarchies; stated in DESIGN.md)."""
        out = []

        def rec(n):
            if n in out:
                return
            out.append(n)
            if n in self.classes:
                for b in self.classes[n].bases:
                    rec(b)
            elif n in self.virtual:
                for b in self.virtual[n]["bases"]:
                    rec(b)
        rec(cname)
        return out

    def is_subclass(self, c, base):
        if c == base:
            return True
        if base in self.virtual and c in self.virtual[base]["members"]:
            return True
        if base in self.virtual:
            for m in self.virtual[base]["members"]:
                if self.is_subclass(c, m):
                    return True
        return base in self.mro(c)

    def subclasses(self, base):
        """All concrete (known) classes that are `base` or derive from it."""
        return sorted(c for c in self.classes if self.is_subclass(c, base))

    def lookup_method(self, cname, mname):
        """-> (owner class name, FunctionDef) or (None, None)"""
        for c in self.mro(cname):
            ci = self.classes.get(c)
            if ci and mname in ci.methods:
                return c, ci.methods[mname]
        return None, None

    def lookup_property(self, cname, pname):
        for c in self.mro(cname):
            ci = self.classes.get(c)
            if ci and pname in ci.properties:
                return c, ci.properties[pname]
            if ci and (pname in ci.methods):
                return None, None
        return None, None

    def lookup_const(self, cname, name):
        for c in self.mro(cname):
            ci = self.classes.get(c)
            if ci and name in ci.consts:
                return c, ci.consts[name]
        return None, None

    def function(self, fid):
        return self.functions.get(fid)

    def fid_of(self, cname, mname):
        owner, fn = self.lookup_method(cname, mname)
        if owner is None:
            return None
        return "%s:%s.%s" % (self.classes[owner].module, self.classes[owner].name, mname)

    def source_segment(self, fid):
        fn = self.functions.get(fid)
        if fn is None:
            return None
        mod = fid.split(":")[0]
        return ast.get_source_segment(self.text[mod], fn)

    def sha(self, fid):
        seg = self.source_segment(fid)
        if seg is None:
            return None
        return hashlib.sha256(seg.encode("utf-8")).hexdigest()[:16]

    # ------------------------------------------------------------------
    def exception_is_subclass(self, c, base):
        """Subclass test for exception classes, builtins included."""
        if c == base:
            return True
        if c in self.classes:
            for b in self.classes[c].bases:
                if self.exception_is_subclass(b, base):
                    return True
            return False
        if c in self.ext_exc:
            return self.exception_is_subclass(self.ext_exc[c], base)
        bc = getattr(builtins, c, None)
        bb = getattr(builtins, base, None)
        if isinstance(bc, type) and isinstance(bb, type):
            return issubclass(bc, bb)
        return False


_SOURCES = None


def sources():
    global _SOURCES
    if _SOURCES is None:
        _SOURCES = Sources()
    return _SOURCES
