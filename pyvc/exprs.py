# -*- coding: utf-8 -*-
"""pyvc.exprs -- expression evaluation (mixin for Engine)."""
import ast
import z3

from .engine import SV, State, Acc, Undecided, POISON, CONTAINER_CLASSES

KNOWN_MODULES = ("time", "logging", "six", "itertools", "traceback", "copy", "sys", "os",
                 "warnings", "re", "json", "bisect", "codecs", "glob", "difflib", "weakref",
                 "contextlib", "inspect", "functools", "operator", "ET", "ElementTree",
                 "argparse", "shlex", "parse", "string", "fnmatch", "collections")

PURE_STR_METHODS = {
    "upper": lambda s: s.upper(), "lower": lambda s: s.lower(), "strip": lambda s: s.strip(),
    "rstrip": lambda s: s.rstrip(), "lstrip": lambda s: s.lstrip(), "title": lambda s: s.title(),
    "capitalize": lambda s: s.capitalize(),
}


class ExprMixin(object):

    # ------------------------------------------------------------------
    def eval(self, node, st, acc):
        """-> (state, SV).  `st` may be mutated; a new state is returned after forks."""
        m = getattr(self, "e_" + type(node).__name__, None)
        if m is None:
            raise Undecided("expression %s" % type(node).__name__)
        return m(node, st, acc)

    def e_Constant(self, node, st, acc):
        return st, self.mk_const(node.value)

    def e_Name(self, node, st, acc):
        name = node.id
        if name in st.env:
            v = st.env[name]
            if v is POISON:
                raise Undecided("use of variable %r whose value could not be merged" % name)
            return st, v
        return st, self.global_name(name, st)

    def global_name(self, name, st):
        if name in ("True", "False", "None"):
            return self.mk_const({"True": True, "False": False, "None": None}[name])
        if self.in_spec:
            if name.startswith("G_") and name[2:] in st.ghost:
                return self.ghost_value(st, name[2:])
            if name in self.oracles:
                return SV(None, "callable", py=("oracle", name))
            if name in self.C.SPECFUNS:
                return SV(None, "callable", py=("specfun", name))
            if name in self.C.MACROS:
                return SV(None, "callable", py=("macro", name))
        cc = self.cur_contract
        if (cc is not None and name in cc.globals) or name in self.C.GLOBALS:
            gl = cc.globals[name] if (cc is not None and name in cc.globals) else self.C.GLOBALS[name]
            if isinstance(gl, tuple) and gl[0] == "singleton":
                return self.singleton(gl[1])
            if isinstance(gl, tuple) and gl[0] == "sentinel":
                return SV(self.u.X(z3.IntVal(-1000 - gl[1])), "sentinel", py=gl[1])
            if isinstance(gl, tuple) and gl[0] == "contract":
                return SV(None, "callable", py=("contract", gl[1]))
            if isinstance(gl, tuple) and gl[0] == "module":
                return SV(None, "module", py=gl[1])
            return self.lit_value(st, gl)
        if name in self.src.classes:
            return SV(None, "class", py=self.resolve_class_name(name))
        if name in KNOWN_MODULES:
            return SV(None, "module", py=name)
        mod = self.cur_module()
        fid = "%s:%s" % (mod, name)
        if fid in self.src.functions:
            return SV(None, "callable", py=("func", fid))
        # imported module-level function of another behave module (unique name)
        cands = [f for f in self.src.functions if f.endswith(":" + name)]
        if len(cands) == 1:
            return SV(None, "callable", py=("func", cands[0]))
        if name in self.C.GLOBALS:
            gl = self.C.GLOBALS[name]
            if isinstance(gl, tuple) and gl[0] == "sentinel":
                return SV(self.u.X(z3.IntVal(-1000 - gl[1])), "sentinel", py=gl[1])
            if isinstance(gl, tuple) and gl[0] == "contract":
                return SV(None, "callable", py=("contract", gl[1]))
            if isinstance(gl, tuple) and gl[0] == "module":
                return SV(None, "module", py=gl[1])
            return self.lit_value(st, gl)
        if hasattr(__import__("builtins"), name):
            return SV(None, "callable", py=("builtin", name))
        cexpr = self.src.module_consts.get((mod, name))
        if cexpr is not None:
            # module-level constant with a literal value
            try:
                return self.lit_value(st, ast.literal_eval(cexpr))
            except Exception:
                pass
            # set([...]) / frozenset([...]) of literals: membership tests only need the elements
            if isinstance(cexpr, ast.Call) and isinstance(cexpr.func, ast.Name) and cexpr.func.id in ("set", "frozenset") \
                    and len(cexpr.args) == 1 and not cexpr.keywords:
                try:
                    return self.lit_value(st, sorted(ast.literal_eval(cexpr.args[0])))
                except Exception:
                    pass
            raise Undecided("module-level name %r is not a literal constant" % name)
        raise Undecided("unknown global name %r" % name)

    def resolve_class_name(self, name):
        """Two behave modules may define classes of the same short name (key `Name@module` for the later one):
        a bare name means the class of the current module, else of the module sharing the longest package prefix."""
        keys = [k for k in self.src.classes if k == name or k.startswith(name + "@")]
        if len(keys) <= 1:
            return name
        mod = self.cur_module() or ""

        def score(k):
            m = self.src.classes[k].module
            if m == mod:
                return 1000
            a, b = m.split("."), mod.split(".")
            n = 0
            while n < len(a) and n < len(b) and a[n] == b[n]:
                n += 1
            return n
        best = max(keys, key=score)
        if score(best) == score(name) and best != name:
            return name
        return best

    def singleton(self, cls):
        """A process-wide object (e.g. the `sys` module as holder of stdout/stderr)."""
        u = self.u
        c = z3.Int("singleton_%s" % cls)
        key = "singleton:" + cls
        if key not in self._closed:
            self._closed.add(key)
            self.global_axioms.append(z3.And(c > 0, c < z3.Int("alloc0"), u.typeof(c) == u.class_id(cls)))
        return SV(u.R(c), "ref", cls=cls)

    def ghost_value(self, st, gname):
        z = st.ghost[gname]
        u = self.u
        if z.sort() == u.Int:
            return self.mk_int(z)
        if z.sort() == u.Bool:
            return self.mk_bool(z)
        if z.sort() == u.Val:
            return SV(z)
        return SV(None, "ghostarray", py=z)

    def cur_module(self):
        return self.cur_fid.split(":")[0] if self.cur_fid else None

    # ------------------------------------------------------------------
    def e_Attribute(self, node, st, acc):
        st, base = self.eval(node.value, st, acc)
        return self.get_attr(st, base, node.attr, acc, node)

    def get_attr(self, st, base, attr, acc, node=None):
        u = self.u
        if base.kind == "module":
            return st, SV(None, "module", py="%s.%s" % (base.py, attr))
        if base.kind == "super":
            return self.get_attr_super(st, base, attr)
        if base.kind == "classof":
            inner = base.py
            if attr == "__name__" and inner.kind == "ref" and inner.cls:
                subs = self.src.subclasses(inner.cls) or [inner.cls]
                allowed = self.dynamic_classes(inner)
                if allowed is not None:
                    subs = [x for x in subs if x in allowed]
                r = self.as_ref(inner)
                return st, self.str_from_cases([(u.typeof(r) == u.class_id(x), x) for x in subs]) \
                    if len(subs) > 1 else self.mk_str(subs[0])
            if inner.kind == "ref" and inner.cls:
                return self.get_attr(st, SV(None, "class", py=inner.cls), attr, acc, node)
            if attr in ("__name__", "__module__"):
                return st, SV(u.S(u.fresh("typename", u.Str)), "str")      # some text (only used in messages)
            raise Undecided("attribute %s of type(x)" % attr)
        if base.kind == "class":
            cname = base.py
            ci = self.src.classes[cname]
            if ci.is_enum and (cname, attr) in u.enum_ids:
                return st, self.mk_enum(cname, attr)
            if attr == "__name__":
                return st, self.mk_str(cname)
            owner, fn = self.src.lookup_method(cname, attr)
            if owner:
                return st, SV(None, "callable", py=("method", cname, attr, None))
            gkey = "%s.%s" % (cname.split("@")[0], attr)
            if gkey in self.C.GLOBALS:
                gl = self.C.GLOBALS[gkey]
                if isinstance(gl, tuple) and gl[0] == "singleton":
                    return st, self.singleton(gl[1])
            owner, cexpr = self.src.lookup_const(cname, attr)
            if owner:
                return self.eval_class_const(st, owner, cexpr, acc)
            raise Undecided("class attribute %s.%s" % (cname, attr))
        if base.kind == "enum":
            ci = self.src.classes[base.cls]
            if attr == "name":
                ids = u.enum_classes[base.cls]
                cases = [(u.e(base.z) == i, u.enum_names[i][1]) for i in ids]
                zs = u.S(u.lit(cases[-1][1]))
                for cond, text in reversed(cases[:-1]):
                    zs = z3.If(cond, u.S(u.lit(text)), zs)
                return st, SV(zs, "str", cases=cases)
            if attr == "value":
                ids = u.enum_classes[base.cls]
                vals = dict(ci.enum_members)
                zi = z3.IntVal(vals[u.enum_names[ids[-1]][1]])
                for i in reversed(ids[:-1]):
                    zi = z3.If(u.e(base.z) == i, z3.IntVal(vals[u.enum_names[i][1]]), zi)
                return st, self.mk_int(zi)
            if attr in ci.properties:
                return self.call_fid(st, acc, "%s:%s.%s" % (ci.module, ci.name, attr), base, [], {}, node)
            if attr in ci.methods:
                return st, SV(None, "callable", py=("method", base.cls, attr, base))
            if attr == "__class__":
                return st, SV(None, "class", py=base.cls)
            raise Undecided("enum attribute %s" % attr)
        if base.kind == "str":
            return st, SV(None, "callable", py=("strmethod", attr, base))
        if base.kind == "pytuple":
            raise Undecided("attribute %s of a tuple" % attr)
        if base.kind == "callable":
            if attr == "__name__":
                return st, SV(u.fresh_val("fname"), "str")
            raise Undecided("attribute %s of a callable" % attr)
        if base.kind in ("int", "bool", "none", "float"):
            if base.kind == "none" and not self.in_spec:
                self.oblige(st, "deref", self.auto_label(node, "deref"), z3.BoolVal(False),
                            note="attribute %s of None" % attr)
                # unreachable afterwards
                st.assume(z3.BoolVal(False))
                return st, SV(u.fresh_val("dead"))
            raise Undecided("attribute %s of %s" % (attr, base.kind))
        # reference (or optional / unknown)
        if base.z is None:
            raise Undecided("attribute %s of python-side value %r" % (attr, base))
        if attr == "__class__":
            return st, SV(None, "classof", py=base)       # every value has a class, None included
        if base.kind != "ref":
            if not self.in_spec:
                self.oblige(st, "deref", self.auto_label(node, "deref"),
                            u.is_R(base.z),
                            note="receiver of .%s is an object (not None)" % attr)
            st.assume(u.is_R(base.z))
            base = SV(base.z, "ref", cls=base.cls, elem=base.elem)
        cls = base.cls
        if attr == "__class__":
            return st, SV(None, "classof", py=base)
        if cls in CONTAINER_CLASSES:
            return st, SV(None, "callable", py=("contmethod", attr, base))
        if cls is None and attr in ("__name__", "__module__", "__doc__"):
            # name of a type / function object of unknown identity: some text (only used in messages)
            return st, SV(u.S(u.fresh("objname", u.Str)), "str")
        if cls is None:
            duck = self.duck_class(attr)
            if duck is not None:
                self.assumptions_used.add("A-duck: receiver of .%s is a %s" % (attr, duck))
                return self.get_attr(st, SV(base.z, "ref", cls=duck, elem=base.elem), attr, acc, node)
            raise Undecided("attribute .%s on object of unknown class" % attr)
        # 1. property
        owner, prop = self.src.lookup_property(cls, attr)
        if owner is not None:
            return self.call_property(st, acc, base, attr, node)
        # 2. declared instance field
        if self.field_type(cls, attr) is not None:
            return st, self.read_field(st, base, attr)
        # 3. method
        owner, fn = self.src.lookup_method(cls, attr)
        if owner is not None or self.abstract_method(cls, attr):
            return st, SV(None, "callable", py=("method", cls, attr, base))
        # 4. class constant (dynamic dispatch on the subclasses)
        owner, cexpr = self.src.lookup_const(cls, attr)
        subs_with = [s for s in self.src.subclasses(cls)
                     if self.src.lookup_const(s, attr)[0] is not None] if cls in self.src.classes else []
        if owner is not None or subs_with:
            return self.eval_instance_const(st, base, attr, acc)
        # 5. __getattr__
        owner, fn = self.src.lookup_method(cls, "__getattr__")
        if owner is not None:
            return self.call_method(st, acc, base, "__getattr__", [self.mk_str(attr)], {}, node)
        # 5b. a field declared (shape) by exactly one subclass line of the static class: checked downcast
        #     (Python raises AttributeError on any other object, so "is an instance of that subclass" is an obligation)
        if cls in self.src.classes:
            subs = [s_ for s_ in self.src.subclasses(cls) if s_ != cls and attr in self.shapes.get(s_, {})]
            tops = [c for c in subs if not any(o != c and self.src.is_subclass(c, o) for o in subs)]
            if len(tops) == 1:
                test = self.class_test(u.r(base.z), tops[0])
                if not self.in_spec:
                    self.oblige(st, "type", self.auto_label(node, "cast"), test,
                                note="receiver of .%s is a %s (static class %s has no such attribute)" % (attr, tops[0], cls))
                st.assume(test)
                return self.get_attr(st, SV(base.z, "ref", cls=tops[0], elem=base.elem), attr, acc, node)
        # 6. undeclared instance attribute
        return st, self.read_field(st, base, attr)

    universal_fields = ()
    module_globals = {}

    def duck_class(self, attr):
        """Static class for a member access on an object of unknown class: the unique
        top-most class of the table that declares the member (field shape, method or property)."""
        owners = []
        for cname, ci in self.src.classes.items():
            declares = attr in ci.methods or attr in ci.properties or attr in self.shapes.get(cname, {})
            if declares:
                owners.append(cname)
        if not owners:
            return None
        # keep only classes that are not subclasses of another owner
        tops = [c for c in owners if not any(o != c and self.src.is_subclass(c, o) for o in owners)]
        if len(tops) == 1:
            return tops[0]
        # a plain data field declared with the same type everywhere: any owner will do
        if all(attr not in self.src.classes[c].methods and attr not in self.src.classes[c].properties
               for c in owners):
            types = set(self.shapes.get(c, {}).get(attr) for c in tops)
            if len(types) == 1 and not any(self.src.lookup_method(c, "__setattr__")[0] for c in tops):
                return sorted(tops)[0]
        return None

    def abstract_method(self, cls, attr):
        return ("abs:%s.%s" % (cls, attr)) in self.reg

    def eval_class_const(self, st, owner, cexpr, acc):
        try:
            value = ast.literal_eval(cexpr)
        except Exception:
            # set([...]) / frozenset([...]) / tuple([...]) of literals: a constant collection (used for `in` only)
            if isinstance(cexpr, ast.Call) and isinstance(cexpr.func, ast.Name) and cexpr.func.id in ("set", "frozenset", "tuple") \
                    and len(cexpr.args) == 1 and not cexpr.keywords:
                try:
                    value = list(ast.literal_eval(cexpr.args[0]))
                except Exception:
                    raise Undecided("non-literal class constant in %s" % owner)
                return st, self.lit_value(st, value)
            raise Undecided("non-literal class constant in %s" % owner)
        return st, self.lit_value(st, value)

    def lit_value(self, st, value):
        if isinstance(value, (list, tuple)):
            items = [self.lit_value(st, v) for v in value]
            return SV(None, "pytuple", py=tuple(items))
        return self.mk_const(value)

    def eval_instance_const(self, st, base, attr, acc):
        """Class-level constant read through an instance: dispatch on typeof."""
        u = self.u
        # (an instance may shadow a class attribute: declare it in a shape when users do that)
        self.assumptions_used.add("A-classconst: %s.%s is read through an instance and taken to have its class-level value"
                                  % (base.cls, attr))
        cls = base.cls
        subs = self.src.subclasses(cls) if cls in self.src.classes else [cls]
        allowed = self.dynamic_classes(base)
        if allowed is not None:
            subs = [s for s in subs if s in allowed]
        groups = {}
        for s in subs:
            owner, cexpr = self.src.lookup_const(s, attr)
            if owner is None:
                continue
            groups.setdefault(ast.dump(cexpr), (cexpr, []))[1].append(s)
        if not groups:
            raise Undecided("constant %s.%s" % (cls, attr))
        vals = []
        for _, (cexpr, members) in sorted(groups.items()):
            _, v = self.eval_class_const(st, members[0], cexpr, acc)
            cond = z3.Or([u.typeof(self.as_ref(base)) == u.class_id(m) for m in members])
            vals.append((cond, v))
        if len(vals) == 1:
            return st, vals[0][1]
        return st, self.ite_values(vals)

    def ite_values(self, vals):
        """[(cond, SV)] -> SV (last is default)."""
        first = vals[0][1]
        if all(v.kind == "str" and v.cases is not None for _, v in vals):
            cases = []
            for cond, v in vals:
                for c2, text in v.cases:
                    cases.append((cond if c2 is None else z3.And(cond, c2), text))
            z = self.u.S(self.u.lit(cases[-1][1]))
            for cond, text in reversed(cases[:-1]):
                z = z3.If(cond, self.u.S(self.u.lit(text)), z)
            return SV(z, "str", cases=cases)
        if any(v.z is None for _, v in vals):
            raise Undecided("conditional python-side constant")
        z = vals[-1][1].z
        for cond, v in reversed(vals[:-1]):
            z = z3.If(cond, v.z, z)
        kind = first.kind if all(v.kind == first.kind for _, v in vals) else None
        return SV(z, kind, cls=first.cls if kind else None)

    def dynamic_classes(self, base):
        """Possible dynamic classes for `self` of the function under proof."""
        if self.cur_contract is not None and self.cur_contract.self_classes and \
                self.entry_env is not None and base is self.entry_env.get("self"):
            return self.cur_contract.self_classes
        return None

    # ------------------------------------------------------------------
    def e_Subscript(self, node, st, acc):
        st, base = self.eval(node.value, st, acc)
        if isinstance(node.slice, ast.Slice):
            return self.eval_slice(st, base, node.slice, acc, node)
        st, idx = self.eval(node.slice, st, acc)
        return self.get_item(st, base, idx, acc, node)

    def get_item(self, st, base, idx, acc, node=None):
        u = self.u
        if base.kind == "pytuple":
            if idx.kind == "int":
                zi = z3.simplify(self.as_int(idx))
                if z3.is_int_value(zi):
                    k = zi.as_long()
                    if -len(base.py) <= k < len(base.py):
                        return st, base.py[k]
                    if self.in_spec:
                        return st, SV(self.u.fresh_val("oob"))     # clause text guarded by len(...)
                    raise Undecided("tuple index out of range")
            raise Undecided("symbolic index into python-side tuple")
        if base.kind == "str":
            f = u.uf("str_index", u.Str, u.Int, u.Val)
            if base.cases is not None and idx.kind == "int" and z3.is_int_value(z3.simplify(self.as_int(idx))):
                k = z3.simplify(self.as_int(idx)).as_long()
                if all(len(t) > (k if k >= 0 else -k - 1) for _, t in base.cases):
                    cases = [(c, t[k]) for c, t in base.cases]
                    return st, self.str_from_cases(cases)
            if not self.in_spec:
                zi = self.as_int(idx)
                n = u.str_len(self.as_str(base))
                self.index_check(st, acc, z3.And(zi < n, zi >= -n), node, "str index in range")
            return st, SV(f(self.as_str(base), self.as_int(idx)), "str")
        if base.z is None:
            raise Undecided("subscript of %r" % (base,))
        if base.kind != "ref":
            if not self.in_spec:
                self.oblige(st, "deref", self.auto_label(node, "deref"), u.is_R(base.z),
                            note="subscripted value is an object (not None)")
            st.assume(u.is_R(base.z))
            base = SV(base.z, "ref", cls=base.cls, elem=base.elem)
        if base.cls in ("list", "tuple", "dictkeys"):
            zi = self.as_int(idx)
            n = self.seq_len(st, base)
            if not self.in_spec:
                self.index_check(st, acc, z3.And(zi < n, zi >= -n), node, "sequence index in range")
            zs = z3.simplify(zi)
            if z3.is_int_value(zs):
                real = zs if zs.as_long() >= 0 else n + zs
            elif self.in_spec:
                real = zi       # contract language: indices are non-negative
            else:
                real = z3.If(zi < 0, zi + n, zi)
            return st, self.seq_get(st, base, real)
        if base.cls is None and idx.kind == "str" and not self.in_spec:
            # value of unknown static type subscripted with a text key: supported when it is provably a dictionary
            is_dict = self.class_test(u.r(base.z), "dict")
            self.oblige(st, "type", self.auto_label(node, "dictkey"), is_dict,
                        note="subscript with a text key on a value of unknown static type: must be a dict here (engine restriction)")
            st.assume(is_dict)
            base = SV(base.z, "ref", cls="dict")
        if base.cls == "dict":
            return self.dict_get_item(st, base, idx, acc, node)
        if base.cls is not None and base.cls not in CONTAINER_CLASSES:
            owner, fn = self.src.lookup_method(base.cls, "__getitem__")
            if owner:
                return self.call_method(st, acc, base, "__getitem__", [idx], {}, node)
        raise Undecided("subscript on %s" % (base.cls,))

    def index_check(self, st, acc, ok, node, note):
        c = self.cur_contract
        if c is not None and c.lookup_raises:
            bad = st.copy()
            bad.assume(z3.Not(ok))
            exc = self.alloc(bad, "IndexError")
            acc.raises.append((bad, exc))
            st.assume(ok)
        else:
            self.oblige(st, "index", self.auto_label(node, "index"), ok, note=note)
            st.assume(ok)

    def dict_get_item(self, st, base, key, acc, node):
        u = self.u
        key = self.box(st, key)
        r = self.as_ref(base)
        has = self.heap_array(st, "$has")[r][key.z]
        if not self.in_spec:
            c = self.cur_contract
            if c is not None and c.lookup_raises:
                bad = st.copy()
                bad.assume(z3.Not(has))
                exc = self.alloc(bad, "KeyError")
                acc.raises.append((bad, exc))
            else:
                self.oblige(st, "key", self.auto_label(node, "key"), has, note="dict key present")
            st.assume(has)
        z = self.heap_array(st, "$val")[r][key.z]
        sv = self.typed(z, self.dict_value_type(base, key))
        t = self.dict_value_type(base, key)
        if t:
            st.assume(self.type_pred(z, t))
        if sv.kind in (None, "ref"):
            st.assume(z3.Implies(u.is_R(z), u.r(z) < st.alloc))
        return st, sv

    def dict_value_type(self, base, key):
        """elem spec of dicts: 'V' (all values) or 'k1=T1;k2=T2;*=T' for constant keys."""
        if not base.elem:
            return None
        if "=" not in base.elem:
            return base.elem
        table = dict(item.split("=", 1) for item in base.elem.split(";"))
        if key.kind == "str" and key.cases is not None and len(key.cases) == 1:
            k = key.cases[0][1]
            if k in table:
                return table[k]
        return table.get("*")

    def eval_slice(self, st, base, sl, acc, node):
        u = self.u
        lo = hi = None
        if sl.step is not None:
            raise Undecided("slice step")
        if sl.lower is not None:
            st, lo = self.eval(sl.lower, st, acc)
        if sl.upper is not None:
            st, hi = self.eval(sl.upper, st, acc)
        if base.kind == "str":
            if base.cases is not None and all(b is None or (b.kind == "int" and z3.is_int_value(z3.simplify(self.as_int(b)))) for b in (lo, hi)):
                l = None if lo is None else z3.simplify(self.as_int(lo)).as_long()
                h = None if hi is None else z3.simplify(self.as_int(hi)).as_long()
                return st, self.str_from_cases([(c, t[l:h]) for c, t in base.cases])
            f = u.uf("str_slice", u.Str, u.Val, u.Val, u.Str)
            z = f(self.as_str(base), lo.z if lo else u.none, hi.z if hi else u.none)
            return st, SV(u.S(z), "str")
        if base.kind == "ref" and base.cls in ("list", "tuple"):
            n = self.seq_len(st, base)

            def norm(b, default):
                if b is None:
                    return default
                zi = self.as_int(b)
                zi = z3.If(zi < 0, zi + n, zi)
                return z3.If(zi < 0, 0, z3.If(zi > n, n, zi))
            l = norm(lo, z3.IntVal(0))
            h = norm(hi, n)
            newlen = z3.If(h > l, h - l, 0)
            res = self.new_symbolic_seq(st, base.cls, base.elem, length=z3.simplify(newlen))
            k = u.fresh_int("k")
            src_el = self.seq_elems(st, base)
            dst_el = self.seq_elems(st, res)
            st.assume(z3.ForAll([k], z3.Implies(z3.And(0 <= k, k < newlen),
                                                  dst_el(k) == src_el(k + l))))
            return st, res
        raise Undecided("slice of %r" % (base,))

    def str_from_cases(self, cases):
        u = self.u
        z = u.S(u.lit(cases[-1][1]))
        for cond, text in reversed(cases[:-1]):
            z = z3.If(cond, u.S(u.lit(text)), z)
        return SV(z, "str", cases=list(cases))

    # ------------------------------------------------------------------
    def box(self, st, sv):
        """Make sure sv has a Val term (python-side tuples become heap tuples)."""
        if sv.z is not None:
            return sv
        if sv.kind == "pytuple":
            items = [self.box(st, it) for it in sv.py]
            return self.new_list(st, items, cls="tuple")
        if sv.kind == "callable":
            key = repr(sv.py)
            f = self.u.uf("callable_token", self.u.Str, self.u.Val)
            return SV(f(self.u.lit("callable:" + key)), "callable", py=sv.py)
        if sv.kind == "class":
            return SV(self.u.X(z3.IntVal(-self.u.class_id(sv.py))), "class", py=sv.py)
        raise Undecided("cannot store python-side value %r" % (sv,))

    # ------------------------------------------------------------------
    def e_Yield(self, node, st, acc):
        """Generator functions are modelled as returning the list of the values they yield, in order (the consumer
        sees exactly that sequence; laziness -- interleaving with the consumer -- is not modelled)."""
        ys = st.env.get("$yields")
        if ys is None or self.cur_fid != self.cur_fid_top:
            raise Undecided("yield outside the function under verification")
        if node.value is None:
            v = self.mk_none()
        else:
            st, v = self.eval(node.value, st, acc)
        v = self.box(st, v)
        self.seq_append(st, ys, v)
        return st, self.mk_none()

    def e_Tuple(self, node, st, acc):
        items = []
        for e in node.elts:
            if isinstance(e, ast.Starred):
                raise Undecided("starred in tuple display")
            st, v = self.eval(e, st, acc)
            items.append(v)
        return st, SV(None, "pytuple", py=tuple(items))

    def e_List(self, node, st, acc):
        items = []
        for e in node.elts:
            if isinstance(e, ast.Starred):
                raise Undecided("starred in list display")
            st, v = self.eval(e, st, acc)
            items.append(self.box(st, v))
        return st, self.new_list(st, items)

    def e_Set(self, node, st, acc):
        items = []
        for e in node.elts:
            st, v = self.eval(e, st, acc)
            items.append(self.box(st, v))
        return st, self.new_set(st, items)

    def e_Dict(self, node, st, acc):
        d = self.new_dict(st)
        for k, v in zip(node.keys, node.values):
            if k is None:
                raise Undecided("dict unpacking")
            st, kv = self.eval(k, st, acc)
            st, vv = self.eval(v, st, acc)
            self.dict_set(st, d, self.box(st, kv), self.box(st, vv))
        return st, d

    def e_JoinedStr(self, node, st, acc):
        for v in node.values:
            if isinstance(v, ast.FormattedValue):
                st, _ = self.eval(v.value, st, acc)
        return st, SV(self.u.S(self.u.fresh("fstr", self.u.Str)), "str")

    def e_Lambda(self, node, st, acc):
        return st, SV(None, "callable", py=("lambda", node, dict(st.env)))

    # ------------------------------------------------------------------
    def e_UnaryOp(self, node, st, acc):
        st, v = self.eval(node.operand, st, acc)
        if isinstance(node.op, ast.Not):
            return st, self.mk_bool(z3.Not(self.truthy(v, st)))
        if isinstance(node.op, ast.USub):
            if v.kind == "int":
                return st, self.mk_int(-self.as_int(v))
            return st, SV(self.u.fresh_val("neg"))
        raise Undecided("unary %s" % type(node.op).__name__)

    def e_BoolOp(self, node, st, acc):
        is_and = isinstance(node.op, ast.And)
        if self.in_spec:
            # contract clauses are pure: no forking, plain connectives
            vals = []
            for v in node.values:
                st, sv = self.eval(v, st, acc)
                vals.append(sv)
            if all(v.kind == "bool" for v in vals):
                zs = [self.as_boolz(v) for v in vals]
                return st, self.mk_bool(z3.And(zs) if is_and else z3.Or(zs))
            cur = vals[-1]
            for v in reversed(vals[:-1]):
                t = self.truthy(v, st)
                cur = self.merge_sv_pair(t if is_and else z3.Not(t), cur, v)
            return st, cur
        st, cur = self.eval(node.values[0], st, acc)
        for nxt in node.values[1:]:
            t = self.truthy(cur, st)
            go_on = t if is_and else z3.Not(t)
            s2 = st.copy()
            s2.assume(go_on)
            s2, v2 = self.eval(nxt, s2, acc)
            s1 = st.copy()
            s1.assume(z3.Not(go_on))
            merged = self.merge([s2, s1])
            kept = cur
            if not is_and and cur is not POISON and cur.kind is None and cur.extra and cur.extra[0] == "opt" and cur.extra[1]:
                # `x or default`: x is only the result when it is truthy, hence not None -> its declared type
                kept = self.typed(cur.z, cur.extra[1])
            tails_val = self.merge_sv_pair(go_on, v2, kept)
            for f in self._pending_facts:       # facts about python-side operands made opaque by merge_sv_pair
                merged.assume(f)
            del self._pending_facts[:]
            st, cur = merged, tails_val
        return st, cur

    def merge_sv_pair(self, cond, a, b):
        """SV for  (a if cond else b)."""
        if a is b:
            return a
        if a.z is not None and b.z is not None:
            if a.kind == "bool" and b.kind == "bool":
                return self.mk_bool(z3.If(cond, self.as_boolz(a), self.as_boolz(b)))
            return self.merge_values([a, b], [cond, z3.Not(cond)])
        v = self.merge_values([a, b], [cond, z3.Not(cond)])
        if v is POISON:
            # `x or <bound method / function>` (a default callback): the python-side callable becomes an opaque,
            # truthy function object; calls through the merged value need a call-site contract
            boxed = []
            for x in (a, b):
                if x.z is None and x.kind in ("callable", "module", "class"):
                    # (a module attribute such as six.text_type is a type object: opaque and callable as well)
                    obj = self.u.fresh_val("callable")
                    f = self.u.uf("is_callable", self.u.Val, self.u.Bool)
                    self._pending_facts.append(z3.And(self.u.is_R(obj), f(obj)))
                    boxed.append(SV(obj))
                else:
                    boxed.append(x)
            if all(x.z is not None for x in boxed):
                return self.merge_values(boxed, [cond, z3.Not(cond)])
            raise Undecided("and/or over python-side values")
        return v

    _pending_facts = []

    def e_IfExp(self, node, st, acc):
        st, c = self.eval(node.test, st, acc)
        t = self.truthy(c, st)
        if self.in_spec:
            st, v1 = self.eval(node.body, st, acc)
            st, v2 = self.eval(node.orelse, st, acc)
            return st, self.merge_sv_pair(t, v1, v2)
        s1 = st.copy()
        s1.assume(t)
        s1, v1 = self.eval(node.body, s1, acc)
        s2 = st.copy()
        s2.assume(z3.Not(t))
        s2, v2 = self.eval(node.orelse, s2, acc)
        merged = self.merge([s1, s2])
        res = self.merge_sv_pair(t, v1, v2)
        for f in self._pending_facts:
            merged.assume(f)
        del self._pending_facts[:]
        return merged, res

    def e_Compare(self, node, st, acc):
        st, left = self.eval(node.left, st, acc)
        conj = []
        for op, rnode in zip(node.ops, node.comparators):
            st, right = self.eval(rnode, st, acc)
            conj.append(self.compare(st, op, left, right, acc, node))
            left = right
        if len(conj) == 1:
            return st, self.mk_bool(conj[0])
        return st, self.mk_bool(z3.And(conj))

    def compare(self, st, op, a, b, acc, node=None):
        u = self.u
        if isinstance(op, ast.Eq):
            return self.py_eq(a, b, st)
        if isinstance(op, ast.NotEq):
            return z3.Not(self.py_eq(a, b, st))
        if isinstance(op, ast.Is):
            return self.py_eq(a, b, st, identity=True)
        if isinstance(op, ast.IsNot):
            return z3.Not(self.py_eq(a, b, st, identity=True))
        if isinstance(op, (ast.Lt, ast.LtE, ast.Gt, ast.GtE)):
            if a.kind == "int" and b.kind == "int":
                x, y = self.as_int(a), self.as_int(b)
            elif a.kind in ("int", None) and b.kind in ("int", None) and self.in_spec:
                x, y = u.i(a.z), u.i(b.z)
            else:
                f = u.uf("generic_lt", u.Val, u.Val, u.Bool)
                if a.z is None or b.z is None:
                    raise Undecided("ordering of python-side values")
                if isinstance(op, ast.Lt):
                    return f(a.z, b.z)
                if isinstance(op, ast.Gt):
                    return f(b.z, a.z)
                if isinstance(op, ast.LtE):
                    return z3.Not(f(b.z, a.z))
                return z3.Not(f(a.z, b.z))
            return {ast.Lt: x < y, ast.LtE: x <= y, ast.Gt: x > y, ast.GtE: x >= y}[type(op)]
        if isinstance(op, (ast.In, ast.NotIn)):
            res = self.contains(st, b, a, acc, node)
            return z3.Not(res) if isinstance(op, ast.NotIn) else res
        raise Undecided("comparison %s" % type(op).__name__)

    def contains(self, st, container, item, acc, node=None):
        u = self.u
        if container.kind == "pytuple":
            return z3.Or([self.py_eq(item, x, st) for x in container.py] or [z3.BoolVal(False)])
        if container.kind == "str":
            if item.kind != "str":
                raise Undecided("non-string in string")
            if container.cases is not None and item.cases is not None:
                return self._fold_cases(container, lambda s: self._fold_cases(
                    item, lambda t: z3.BoolVal(t in s), z3.BoolSort()), z3.BoolSort())
            f = u.uf("str_contains", u.Str, u.Str, u.Bool)
            return f(self.as_str(container), self.as_str(item))
        if container.z is None:
            raise Undecided("in on %r" % (container,))
        if container.kind is None and container.cls is None and item.kind == "str":
            # container of unknown type: substring test when it is a string, unknown otherwise
            f = u.uf("str_contains", u.Str, u.Str, u.Bool)
            other = u.uf("in_unknown", u.Val, u.Val, u.Bool)(container.z, self.box(st, item).z)
            return z3.If(u.is_S(container.z), f(u.s(container.z), self.as_str(item)), other)
        if container.kind != "ref":
            st.assume(u.is_R(container.z))
        r = u.r(container.z) if container.kind != "ref" else self.as_ref(container)
        item = self.box(st, item)
        if container.cls in ("dict", "set"):
            return self.heap_array(st, "$has")[r][item.z]
        if container.cls in ("list", "tuple"):
            k = u.fresh_int("k")
            cv = SV(container.z, "ref", cls=container.cls, elem=container.elem)
            n = self.seq_len(st, cv)
            el = self.seq_elems(st, cv)
            if item.kind == "str" or item.kind in ("int", "bool", "enum", "none", "ref") or self.in_spec:
                return z3.Exists([k], z3.And(0 <= k, k < n, el(k) == item.z))
            raise Undecided("membership with == of unknown kind")
        if container.cls is not None:
            owner, fn = self.src.lookup_method(container.cls, "__contains__")
            if owner:
                cst, res = self.call_method(st, acc, SV(container.z, "ref", cls=container.cls),
                                            "__contains__", [item], {}, node)
                # NOTE: state effects of __contains__ are dropped only if it is pure
                st.pc[:] = cst.pc
                st.heap = cst.heap
                st.ghost = cst.ghost
                st.alloc = cst.alloc
                return self.truthy(res, st)
        raise Undecided("in on %s" % container.cls)

    # ------------------------------------------------------------------
    def e_BinOp(self, node, st, acc):
        st, a = self.eval(node.left, st, acc)
        st, b = self.eval(node.right, st, acc)
        return self.binop(st, node.op, a, b, acc, node)

    def binop(self, st, op, a, b, acc, node=None):
        u = self.u
        if a.kind == "int" and b.kind == "int":
            x, y = self.as_int(a), self.as_int(b)
            if isinstance(op, ast.Add):
                return st, self.mk_int(x + y)
            if isinstance(op, ast.Sub):
                return st, self.mk_int(x - y)
            if isinstance(op, ast.Mult):
                return st, self.mk_int(x * y)
            if isinstance(op, (ast.FloorDiv, ast.Mod)):
                if not self.in_spec:
                    self.oblige(st, "div", self.auto_label(node, "div"), y != 0, note="divisor non-zero")
                st.assume(y != 0)
                # python floor division / modulo (sign follows divisor)
                q = z3.If(y > 0, x / y, -((-x) / (-y)) if False else (x / y))
                if isinstance(op, ast.FloorDiv):
                    # z3 int division is floor for positive divisor; restrict to that
                    st.assume(y > 0) if self.in_spec else self.oblige(
                        st, "div", self.auto_label(node, "divpos"), y > 0,
                        note="divisor positive (engine models floor division for positive divisors only)")
                    return st, self.mk_int(x / y)
                st.assume(y > 0) if self.in_spec else self.oblige(
                    st, "div", self.auto_label(node, "modpos"), y > 0,
                    note="modulus positive (engine restriction)")
                return st, self.mk_int(x % y)
        if isinstance(op, ast.Add) and ((a.kind == "str" and b.kind is None and b.z is not None) or
                                        (b.kind == "str" and a.kind is None and a.z is not None)):
            unk = b if a.kind == "str" else a
            if not self.in_spec:
                self.oblige(st, "type", self.auto_label(node, "stradd"), u.is_S(unk.z),
                            note="operand of str + is a string (TypeError otherwise)")
            st.assume(u.is_S(unk.z))
            if unk is a:
                a = SV(a.z, "str")
            else:
                b = SV(b.z, "str")
        if isinstance(op, ast.Add) and a.kind == "str" and b.kind == "str":
            if a.cases is not None and b.cases is not None and len(a.cases) * len(b.cases) <= 12:
                cases = []
                for c1, t1 in a.cases:
                    for c2, t2 in b.cases:
                        conds = [c for c in (c1, c2) if c is not None]
                        cases.append((z3.And(conds) if conds else None, t1 + t2))
                if len(cases) == 1:
                    return st, self.mk_str(cases[0][1])
                # make last default
                return st, self.str_from_cases([(c if c is not None else z3.BoolVal(True), t) for c, t in cases])
            f = u.uf("str_concat", u.Str, u.Str, u.Str)
            return st, SV(u.S(f(self.as_str(a), self.as_str(b))), "str")
        if isinstance(op, ast.Mod) and a.kind == "str":
            # string formatting: opaque result
            if b.kind == "pytuple" and b.py and all(it.kind in ("str", "int", "bool") and it.z is not None for it in b.py):
                # immutable operands: the text is a function of the format and of the operand values (not of the
                # identity of the freshly boxed tuple)
                f = u.uf("str_format%d" % len(b.py), u.Str, *([u.Val] * len(b.py) + [u.Str]))
                return st, SV(u.S(f(self.as_str(a), *[it.z for it in b.py])), "str")
            b = self.box(st, b)
            f = u.uf("str_format", u.Str, u.Val, u.Str)
            return st, SV(u.S(f(self.as_str(a), b.z)), "str")
        if isinstance(op, ast.Add) and a.kind == "ref" and b.kind == "ref" \
                and a.cls in ("list", "tuple") and b.cls == a.cls:
            return st, self.seq_concat(st, a, b)
        if isinstance(op, ast.Add) and a.kind == "pytuple" and b.kind == "pytuple":
            return st, SV(None, "pytuple", py=a.py + b.py)
        if isinstance(op, ast.Mult) and a.kind == "ref" and a.cls == "list" and b.kind == "int":
            n = self.seq_len(st, a)
            res = self.new_symbolic_seq(st, "list", a.elem, length=None)
            rl = self.seq_len(st, res)
            cnt = self.as_int(b)
            st.assume(rl == z3.If(cnt > 0, cnt * n, 0))
            k = u.fresh_int("k")
            src = self.heap_array(st, "$at")[self.as_ref(a)]
            dst = self.heap_array(st, "$at")[self.as_ref(res)]
            st.assume(z3.Implies(n == 1, z3.ForAll([k], z3.Implies(z3.And(0 <= k, k < rl), dst[k] == src[0]))))
            return st, res
        if a.kind in ("float", None) or b.kind in ("float", None):
            # arithmetic on floats / unknown numbers: uninterpreted
            if a.z is not None and b.z is not None:
                f = u.uf("num_%s" % type(op).__name__, u.Val, u.Val, u.Val)
                if a.kind in ("float", "int", None) and b.kind in ("float", "int", None) \
                        and not (a.kind is None and a.cls) and not (b.kind is None and b.cls):
                    return st, SV(f(a.z, b.z), "float" if "float" in (a.kind, b.kind) else None)
        raise Undecided("binary %s on %s/%s" % (type(op).__name__, a.kind, b.kind))

    def seq_concat(self, st, a, b):
        u = self.u
        la, lb = self.seq_len(st, a), self.seq_len(st, b)
        elem = a.elem if a.elem == b.elem else None
        res = self.new_symbolic_seq(st, a.cls, elem, length=la + lb)
        k = u.fresh_int("k")
        ea, eb = self.seq_elems(st, a), self.seq_elems(st, b)
        if a.cls == "list":
            # name the three element arrays so that the quantified facts have usable triggers
            rel = u.fresh("cat", u.ElemsSort)
            st.heap["$at"] = z3.Store(self.heap_array(st, "$at"), self.as_ref(res), rel)
            st.assume(z3.ForAll([k], z3.Implies(z3.And(0 <= k, k < la), rel[k] == ea(k)), patterns=[rel[k]]))
            st.assume(z3.ForAll([k], z3.Implies(z3.And(la <= k, k < la + lb), rel[k] == eb(k - la)), patterns=[rel[k]]))
            st.assume(z3.ForAll([k], z3.Implies(z3.And(0 <= k, k < lb), rel[k + la] == eb(k)), patterns=[rel[k + la]]))
            return res
        er = self.seq_elems(st, res)
        st.assume(z3.ForAll([k], z3.Implies(z3.And(0 <= k, k < la), er(k) == ea(k))))
        st.assume(z3.ForAll([k], z3.Implies(z3.And(0 <= k, k < lb), er(k + la) == eb(k))))
        return res

    # ------------------------------------------------------------------
    # dicts / sets
    def new_dict(self, st, elem=None):
        u = self.u
        d = self.alloc(st, "dict", elem)
        r = self.as_ref(d)
        st.heap["$has"] = z3.Store(self.heap_array(st, "$has"), r, z3.K(u.Val, z3.BoolVal(False)))
        st.heap["$dlen"] = z3.Store(self.heap_array(st, "$dlen"), r, z3.IntVal(0))
        st.heap["$klen"] = z3.Store(self.heap_array(st, "$klen"), r, z3.IntVal(0))
        self.heap_array(st, "$kat")
        self.heap_array(st, "$val")
        return d

    def new_set(self, st, items, elem=None):
        u = self.u
        s = self.alloc(st, "set", elem)
        r = self.as_ref(s)
        has = z3.K(u.Val, z3.BoolVal(False))
        for it in items:
            has = z3.Store(has, it.z, z3.BoolVal(True))
        st.heap["$has"] = z3.Store(self.heap_array(st, "$has"), r, has)
        # length of a set is only tracked as emptiness information
        n = u.fresh_int("setlen")
        st.assume(n >= (1 if items else 0))
        st.assume(n <= len(items))
        st.heap["$dlen"] = z3.Store(self.heap_array(st, "$dlen"), r, n)
        return s

    def dict_set(self, st, d, key, value):
        u = self.u
        r = self.as_ref(d)
        has = self.heap_array(st, "$has")[r]
        had = has[key.z]
        vals = self.heap_array(st, "$val")[r]
        st.heap["$has"] = z3.Store(st.heap["$has"], r, z3.Store(has, key.z, z3.BoolVal(True)))
        st.heap["$val"] = z3.Store(st.heap["$val"], r, z3.Store(vals, key.z, value.z))
        n = self.heap_array(st, "$dlen")[r]
        st.heap["$dlen"] = z3.Store(st.heap["$dlen"], r, z3.If(had, n, n + 1))
        # key order (insertion order)
        kn = self.heap_array(st, "$klen")[r]
        kel = self.heap_array(st, "$kat")[r]
        st.heap["$kat"] = z3.Store(st.heap["$kat"], r, z3.If(had, kel, z3.Store(kel, kn, key.z)))
        st.heap["$klen"] = z3.Store(st.heap["$klen"], r, z3.If(had, kn, kn + 1))
