"""developer helper: python3-vt -m pyvc.dev [-q] <fid> ...   (prints every obligation; solves in parallel)"""
import multiprocessing
import os
import sys
import time
sys.setrecursionlimit(20000)
from pyvc import source, contracts as C
from pyvc.verify import PyVC, check_obligation, check_cover
import contracts as sidecar

_VC = None
_OBLS = None


def _solve(i):
    ob = _OBLS[i]
    check_obligation(_VC, ob, use_cvc5=not os.environ.get("PYVC_NO_CVC5"))
    return (i, ob.status, ob.backend, ob.time, ob.model)


def main(argv):
    global _VC, _OBLS
    quiet = False
    if argv and argv[0] == "-q":
        quiet = True
        argv = argv[1:]
    sidecar.load_all()
    src = source.sources()
    fids = argv or [f for f, c in C.REG.items() if not f.startswith(("abs:", "lib:", "new:", "user:", "ctx:")) and (c.ensures or c.raises) and not c.trusted]
    for fid in fids:
        vc = PyVC(src)
        c = C.REG[fid]
        t0 = time.time()
        info = vc.verify_lemma(fid) if c.spec_only else vc.verify_function(fid)
        obls = info.get("obligations", [])
        print("== %s: %s %s (%d obligations, symexec %.2fs)" % (fid, info["status"], info["error"] or "", len(obls), time.time() - t0))
        _VC, _OBLS = vc, obls
        t1 = time.time()
        if len(obls) > 4:
            with multiprocessing.get_context("fork").Pool(min(16, len(obls))) as pool:
                res = pool.map(_solve, range(len(obls)), chunksize=1)
        else:
            res = [_solve(i) for i in range(len(obls))]
        for i, status, backend, tm, model in res:
            ob = obls[i]
            if quiet and status == "discharged":
                continue
            print("   %-10s %-7s %6.2fs %s" % (status, backend, tm, ob.oid))
            if status != "discharged":
                print("      note:", ob.note[:300])
                if model:
                    print("      model:", model.replace("\n", "; ")[:600])
        n_ok = sum(1 for r in res if r[1] == "discharged")
        print("   -- %d/%d discharged, solving wall %.1fs" % (n_ok, len(obls), time.time() - t1))
        if not quiet:
            for name, pcs in info.get("covers", []):
                print("   cover %-30s %s" % (name, check_cover(vc, pcs)))


if __name__ == "__main__":
    main(sys.argv[1:])
