"""developer helper: python3-vt -m pyvc.dev <fid> ...   (prints every obligation)"""
import sys, time
sys.setrecursionlimit(20000)
from pyvc import source, contracts as C
from pyvc.verify import PyVC, check_obligation, check_cover
import contracts as sidecar


def main(argv):
    sidecar.load_all()
    src = source.sources()
    fids = argv or [f for f, c in C.REG.items() if not f.startswith(("abs:", "lib:", "new:", "user:")) and (c.ensures or c.raises)]
    for fid in fids:
        vc = PyVC(src)
        c = C.REG[fid]
        t0 = time.time()
        if c.spec_only:
            info = vc.verify_lemma(fid)
        else:
            info = vc.verify_function(fid)
        print("== %s: %s %s (%d obligations, symexec %.2fs)" % (fid, info["status"], info["error"] or "", len(info.get("obligations", [])), time.time() - t0))
        for ob in info.get("obligations", []):
            check_obligation(vc, ob)
            print("   %-10s %-7s %6.2fs %s" % (ob.status, ob.backend, ob.time, ob.oid))
            if ob.status != "discharged":
                print("      note:", ob.note[:200])
                if ob.model:
                    print("      model:", ob.model.replace("\n", "; ")[:600])
        for name, pcs in info.get("covers", []):
            print("   cover %-30s %s" % (name, check_cover(vc, pcs)))


if __name__ == "__main__":
    main(sys.argv[1:])
