# -*- coding: utf-8 -*-
"""pyvc.calls -- call evaluation: contracts, inlining, builtins, containers, strings."""
import ast
import z3

from .engine import SV, State, Acc, Undecided, POISON, CONTAINER_CLASSES
from .exprs import PURE_STR_METHODS

DROPPED_CALLS = {
    "print", "ExceptionUtil.set_traceback", "warnings.warn", "traceback.print_exc", "sys.stdout.flush",
    "sys.stderr.flush", "logging.warning",
}
DROPPED_METHOD_NAMES = {"warning", "error", "info", "debug", "exception", "flush"}
FRESH_MODULE_CALLS = {
    "ExceptionUtil.describe": "str", "ExceptionUtil.get_traceback": "any", "ExceptionUtil.has_traceback": "any",
    # module function -> (result kind)
    "time.time": "float", "traceback.format_exc": "str", "traceback.format_tb": "any",
    "traceback.extract_stack": "any", "sys.exc_info": "any", "os.getcwd": "str",
    "time.perf_counter": "float",
}


class CallMixin(object):

    # ------------------------------------------------------------------
    def e_Call(self, node, st, acc):
        c = self.cur_contract
        text = None
        if c is not None and (c.exprs or c.callsites):
            text = ast.unparse(node)
            if text in c.exprs:
                return self.expr_override(st, acc, c.exprs[text], node)
        fnode = node.func
        # spec-only constructs
        if self.in_spec and isinstance(fnode, ast.Name):
            h = getattr(self, "spec_" + fnode.id, None)
            if h is not None and fnode.id not in st.env:
                return h(node, st, acc)
        # super(...)
        if isinstance(fnode, ast.Name) and fnode.id == "super":
            return self.eval_super(node, st, acc)
        # callee designator
        if c is not None and c.callsites:
            ftext = ast.unparse(fnode)
            if ftext in c.callsites:
                cc = self.get_contract(c.callsites[ftext])
                recv = None
                if isinstance(fnode, ast.Attribute) and cc.pos_params and cc.pos_params[0] == "self":
                    st, recv = self.eval(fnode.value, st, acc)
                    if recv.kind == "super":
                        recv = recv.py[1]
                callee = None
                if cc.pos_params and cc.pos_params[0] == "callee":
                    st, callee = self.eval(fnode, st, acc)
                    callee = self.box(st, callee)
                st, args, kwargs = self.eval_args(node, st, acc)
                if callee is not None:
                    args = [callee] + args
                return self.apply_contract(st, acc, cc, None, recv, args, kwargs, node)
        st, f = self.eval(fnode, st, acc)
        if f.kind == "callable" and f.py[0] == "builtin" and f.py[1] in ("any", "all") and len(node.args) == 1 \
                and isinstance(node.args[0], (ast.GeneratorExp, ast.ListComp)) and not node.keywords:
            # any(<comprehension>) / all(<comprehension>): a quantifier; the intermediate list is not materialised
            return self.quantified_comprehension(st, acc, node.args[0], f.py[1] == "any")
        st, args, kwargs = self.eval_args(node, st, acc)
        return self.call_value(st, acc, f, args, kwargs, node)

    def eval_args(self, node, st, acc):
        args = []
        for a in node.args:
            if isinstance(a, ast.Starred):
                st, v = self.eval(a.value, st, acc)
                if v.kind == "pytuple":
                    args.extend(v.py)
                else:
                    args.append(SV(v.z, "starred", cls=v.cls, elem=v.elem, py=v))
            else:
                st, v = self.eval(a, st, acc)
                args.append(v)
        kwargs = {}
        for kw in node.keywords:
            st, v = self.eval(kw.value, st, acc)
            if kw.arg is None:
                kwargs["**"] = v
            else:
                kwargs[kw.arg] = v
        return st, args, kwargs

    def call_value(self, st, acc, f, args, kwargs, node):
        if f.kind == "class":
            return self.construct(st, acc, f.py, args, kwargs, node)
        if f.kind == "module":
            return self.module_call(st, acc, f.py, args, kwargs, node)
        if f.kind == "classof":
            raise Undecided("call of x.__class__")
        if f.kind == "ghostarray":
            arr = f.py
            a0 = args[0]
            if arr.sort().domain() == self.u.Int:
                return st, SV(arr[self.as_int(a0) if a0.kind == "int" else self.u.i(a0.z)])
            return st, SV(arr[self.box(st, a0).z])
        if f.kind != "callable":
            if f.z is not None and f.cls is not None and f.cls not in CONTAINER_CLASSES:
                owner, fn = self.src.lookup_method(f.cls, "__call__")
                if owner:
                    return self.call_method(st, acc, f, "__call__", args, kwargs, node)
            raise Undecided("call of non-callable %r (%s)" % (f, ast.unparse(node.func)))
        tag = f.py[0]
        if tag == "builtin":
            h = getattr(self, "bi_" + f.py[1], None)
            if h is None:
                raise Undecided("builtin %s" % f.py[1])
            return h(st, acc, args, kwargs, node)
        if tag == "func":
            return self.call_fid(st, acc, f.py[1], None, args, kwargs, node)
        if tag == "method":
            _, cls, name, selfv = f.py
            if selfv is None:
                # Class.method(...)  (static/classmethod or explicit self)
                ci = self.src.classes.get(cls)
                owner, fn = self.src.lookup_method(cls, name)
                oci = self.src.classes[owner]
                if name in oci.static:
                    return self.call_fid(st, acc, self.fid(owner, name), None, args, kwargs, node, static=True)
                if name in oci.classm:
                    return self.call_fid(st, acc, self.fid(owner, name), SV(None, "class", py=cls),
                                         args, kwargs, node)
                return self.call_fid(st, acc, self.fid(owner, name), args[0], args[1:], kwargs, node)
            return self.call_method(st, acc, selfv, name, args, kwargs, node, static_cls=cls)
        if tag == "method_static":
            _, owner, name, selfv = f.py
            return self.call_fid(st, acc, self.fid(owner, name), selfv, args, kwargs, node)
        if tag == "strmethod":
            return self.str_method(st, acc, f.py[2], f.py[1], args, kwargs, node)
        if tag == "contmethod":
            return self.container_method(st, acc, f.py[2], f.py[1], args, kwargs, node)
        if tag == "lambda":
            return self.call_lambda(st, acc, f.py[1], f.py[2], args, kwargs, node)
        if tag == "closure":
            return self.call_closure(st, acc, f.py[2], args, kwargs, node)
        if tag == "oracle":
            fn, asorts, rsort = self.oracles[f.py[1]]
            zs = [self.to_sort(a, s) for a, s in zip(args, asorts)]
            return st, self.from_sort(fn(*zs), rsort)
        if tag == "specfun":
            return st, self.C.SPECFUNS[f.py[1]](self, st, *args)
        if tag == "macro":
            params, text = self.C.MACROS[f.py[1]]
            saved = st.env
            env = dict(saved)
            for pn, a in zip(params, args):
                env[pn] = a
            st.env = env
            try:
                st, v = self.eval(self.parse_spec(text), st, acc)
            finally:
                st.env = saved
            return st, v
        if tag == "elem_at":
            return st, f.py[1](st, self.as_int(args[0]))
        if tag == "contract":
            return self.apply_contract(st, acc, self.get_contract(f.py[1]), None, None, args, kwargs, node)
        if tag == "bound":
            # ("bound", contract id, self SV)
            return self.apply_contract(st, acc, self.get_contract(f.py[1]), None, f.py[2], args, kwargs, node)
        raise Undecided("call of %r" % (f.py,))

    def to_sort(self, sv, s):
        if s == "int":
            return self.as_int(sv) if sv.kind == "int" else self.u.i(sv.z)
        if s == "bool":
            return self.truthy(sv)
        if s == "ref":
            return self.as_ref(sv) if sv.kind == "ref" else self.u.r(sv.z)
        if s == "str":
            return self.as_str(sv)
        return sv.z

    def from_sort(self, z, s):
        if s.startswith("val:"):
            return self.typed(z, s[4:])
        if s == "int":
            return self.mk_int(z)
        if s == "bool":
            return self.mk_bool(z)
        if s == "ref":
            return self.mk_ref(z)
        if s == "str":
            return SV(self.u.S(z), "str")
        return SV(z)

    def fid(self, owner, name):
        ci = self.src.classes[owner]
        return "%s:%s.%s" % (ci.module, ci.name, name)

    def get_contract(self, cid):
        c = self.reg.get(cid)
        if c is None:
            raise Undecided("no contract %r" % cid)
        return c

    # ------------------------------------------------------------------
    def eval_super(self, node, st, acc):
        if len(node.args) == 2 and isinstance(node.args[0], ast.Name):
            cname = node.args[0].id
            st, selfv = self.eval(node.args[1], st, acc)
        elif not node.args:
            cname = self.cur_class()
            selfv = st.env.get("self")
        else:
            raise Undecided("super() form")
        return st, SV(None, "super", py=(cname, selfv))

    def cur_class(self):
        q = self.cur_fid.split(":")[1]
        return q.split(".")[0] if "." in q else None

    def get_attr_super(self, st, base, attr):
        cname, selfv = base.py
        mro = self.src.mro(cname)[1:]
        for c in mro:
            ci = self.src.classes.get(c)
            if ci and attr in ci.methods:
                return st, SV(None, "callable", py=("method_static", c, attr, selfv))
        if attr == "__init__":
            return st, SV(None, "callable", py=("builtin", "noop"))
        raise Undecided("super().%s" % attr)

    def bi_noop(self, st, acc, args, kwargs, node):
        return st, self.mk_none()

    # ------------------------------------------------------------------
    def call_property(self, st, acc, base, attr, node):
        """Read of a property: the getter is a call."""
        cls = base.cls
        # call-site override of the current contract, keyed by the source text of the attribute access
        cur = self.cur_contract
        if cur is not None and cur.callsites and isinstance(node, ast.Attribute):
            cid = cur.callsites.get(ast.unparse(node))
            if cid is not None:
                if cid.startswith(("abs:", "lib:", "user:")):
                    return self.apply_contract(st, acc, self.get_contract(cid), None, base, [], {}, node)
                return self.call_fid(st, acc, cid, base, [], {}, node)
        for c in self.src.mro(cls):
            abs_id = "abs:%s.%s" % (c, attr)
            if abs_id in self.reg:
                return self.apply_contract(st, acc, self.reg[abs_id], None, base, [], {}, node)
        impls = self.implementations(base, attr, prop=True)
        return self.dispatch(st, acc, base, attr, impls, [], {}, node)

    def implementations(self, base, name, prop=False):
        """{fid: [dynamic classes]} for method/property `name` on `base`."""
        cls = base.cls
        subs = self.src.subclasses(cls) if (cls in self.src.classes or cls in self.src.virtual) else [cls]
        allowed = self.dynamic_classes(base)
        if allowed is not None:
            subs = [s for s in subs if s in allowed]
        out = {}
        for s in subs:
            if prop:
                owner, p = self.src.lookup_property(s, name)
            else:
                owner, p = self.src.lookup_method(s, name)
            if owner is None:
                continue
            out.setdefault(self.fid(owner, name), []).append(s)
        return out

    def call_method(self, st, acc, selfv, name, args, kwargs, node, static_cls=None):
        cls = static_cls or selfv.cls
        abs_id = "abs:%s.%s" % (cls, name)
        if abs_id in self.reg:
            return self.apply_contract(st, acc, self.reg[abs_id], None, selfv, args, kwargs, node)
        for c in self.src.mro(cls):
            abs_id = "abs:%s.%s" % (c, name)
            if abs_id in self.reg:
                return self.apply_contract(st, acc, self.reg[abs_id], None, selfv, args, kwargs, node)
        impls = self.implementations(selfv if selfv.cls == cls else SV(selfv.z, "ref", cls=cls), name)
        if not impls:
            raise Undecided("method %s.%s not found" % (cls, name))
        return self.dispatch(st, acc, selfv, name, impls, args, kwargs, node)

    def dispatch(self, st, acc, selfv, name, impls, args, kwargs, node):
        u = self.u
        if len(impls) == 1:
            fid = list(impls)[0]
            return self.call_fid(st, acc, fid, selfv, args, kwargs, node)
        # dynamic dispatch: one branch per implementation, guarded by typeof
        outs = []
        vals = []
        conds = []
        r = self.as_ref(selfv)
        for fid, classes in sorted(impls.items()):
            cond = z3.Or([u.typeof(r) == u.class_id(c) for c in classes])
            s2 = st.copy()
            s2.assume(cond)
            s2, v = self.call_fid(s2, acc, fid, SV(selfv.z, "ref", cls=classes[0] if len(classes) == 1 else selfv.cls,
                                                   elem=selfv.elem), args, kwargs, node)
            outs.append(s2)
            vals.append(v)
            conds.append(cond)
        merged = self.merge(outs)
        val = self.merge_values(vals, conds)
        if val is POISON:
            raise Undecided("dispatch on %s: results cannot be merged" % name)
        return merged, val

    def call_fid(self, st, acc, fid, selfv, args, kwargs, node, static=False):
        fn = self.src.function(fid)
        c = self.reg.get(fid)
        self.calls_resolved.append((self.cur_fid, fid))
        if c is not None and not c.inline:
            return self.apply_contract(st, acc, c, fn, selfv, args, kwargs, node)
        if c is not None and c.inline or fid in self.auto_inline:
            if fn is None:
                raise Undecided("inline target %s has no source" % fid)
            return self.inline_body(st, acc, fid, fn, selfv, args, kwargs, node)
        raise Undecided("no contract for callee %s" % fid)

    auto_inline = set()

    # ------------------------------------------------------------------
    def bind_params(self, st, fn, c, selfv, args, kwargs, acc):
        """-> env dict for the callee."""
        env = {}
        if fn is not None:
            a = fn.args
            names = [x.arg for x in a.posonlyargs + a.args]
            defaults = a.defaults
            ndef = len(defaults)
            defmap = {}
            for k, d in enumerate(defaults):
                defmap[names[len(names) - ndef + k]] = d
            for x, d in zip(a.kwonlyargs, a.kw_defaults):
                if d is not None:
                    defmap[x.arg] = d
            kwonly = [x.arg for x in a.kwonlyargs]
            vararg = a.vararg.arg if a.vararg else None
            kwarg = a.kwarg.arg if a.kwarg else None
        else:
            names = list(c.pos_params or [])
            defmap = {}
            kwonly = []
            vararg = c.vararg
            kwarg = c.kwarg
        pos = list(args)
        if selfv is not None and names and names[0] in ("self", "cls") :
            env[names[0]] = selfv
            names = names[1:]
        elif selfv is not None and fn is None:
            env["self"] = selfv
            if names and names[0] == "self":
                names = names[1:]
        rest = []
        for k, v in enumerate(pos):
            if v.kind == "starred":
                if k != len(pos) - 1 or len(names) > k and not vararg:
                    raise Undecided("*args in the middle of a call")
                rest = [v]
                pos = pos[:k]
                break
        for name, v in zip(names, pos):
            env[name] = v
        extra = pos[len(names):]
        if extra or rest:
            if not vararg:
                raise Undecided("too many positional arguments")
            if rest and not extra:
                env[vararg] = SV(rest[0].z, rest[0].py.kind, cls=rest[0].cls, elem=rest[0].elem)
            elif rest:
                raise Undecided("mixed extra positional and *args")
            else:
                env[vararg] = SV(None, "pytuple", py=tuple(extra))
        elif vararg:
            env[vararg] = SV(None, "pytuple", py=())
        kw_left = dict(kwargs)
        kw_left.pop("**", None)
        for name in names[len(pos):] + kwonly:
            if name in kw_left:
                env[name] = kw_left.pop(name)
            elif name in defmap:
                d = defmap[name]
                env[name] = self.mk_const(ast.literal_eval(d)) if isinstance(d, ast.Constant) \
                    else self.default_value(st, d)
            elif c is not None and name in c.defaults:
                env[name] = self.mk_const(c.defaults[name])
            elif name not in env:
                raise Undecided("missing argument %r" % name)
        if kw_left:
            if not kwarg:
                raise Undecided("unexpected keyword arguments %s" % sorted(kw_left))
            d = self.new_dict(st)
            for k, v in kw_left.items():
                self.dict_set(st, d, self.mk_str(k), self.box(st, v))
            env[kwarg] = d
        elif kwarg:
            if "**" in kwargs:
                env[kwarg] = kwargs["**"]
            else:
                env[kwarg] = self.new_dict(st)
        return env

    def default_value(self, st, d):
        try:
            return self.lit_value(st, ast.literal_eval(d))
        except Exception:
            pass
        if isinstance(d, ast.Name) and d.id in ("None", "True", "False"):
            return self.mk_const({"None": None, "True": True, "False": False}[d.id])
        raise Undecided("non-literal default %s" % ast.unparse(d))

    # ------------------------------------------------------------------
    def inline_body(self, st, acc, fid, fn, selfv, args, kwargs, node):
        if self.depth >= self.MAX_INLINE_DEPTH or fid in self.inline_stack:
            raise Undecided("inline depth/recursion at %s" % fid)
        c = self.reg.get(fid)
        env = self.bind_params(st, fn, c, selfv, args, kwargs, acc)
        saved = (self.cur_fid, self.cur_contract, st.env, self.entry_env)
        self.inlined.add(fid)
        self.inline_stack.append(fid)
        self.depth += 1
        self.cur_fid = fid
        self.cur_contract = c
        try:
            st.env = env
            if c is not None:
                for name, t in c.params.items():
                    if name in env and env[name].z is not None and env[name].kind is None:
                        env[name] = self.retag(env[name], t)
            inner = Acc()
            end = self.exec_block(fn.body, st, inner)
            outs = list(inner.returns)
            if end is not None:
                outs.append((end, self.mk_none()))
            for s, e in inner.raises:
                s.env = saved[2]
                acc.raises.append((s, e))
            if inner.breaks or inner.continues:
                raise Undecided("break/continue escaping function")
            if not outs:
                dead = st.copy()
                dead.env = saved[2]
                dead.assume(z3.BoolVal(False))
                return dead, SV(self.u.fresh_val("noreturn"))
            states = [s for s, _ in outs]
            vals = [v for _, v in outs]
            if len(outs) == 1:
                res_state, res_val = outs[0]
            else:
                res_state, tails = self.merge_with_tails(states)
                res_val = self.merge_values(vals, tails)
                if res_val is POISON:
                    raise Undecided("results of inlined %s cannot be merged" % fid)
            res_state.env = saved[2]
            return res_state, res_val
        finally:
            self.cur_fid, self.cur_contract = saved[0], saved[1]
            self.depth -= 1
            self.inline_stack.pop()

    inline_stack = []

    def retag(self, sv, t):
        n = self.typed(sv.z, t)
        return n

    def merge_with_tails(self, states):
        live = [s for s in states if s is not None]
        if len(live) == 1:
            return live[0], [z3.BoolVal(True)]
        merged = self.merge(states)
        return merged, self._last_tails

    def call_lambda(self, st, acc, lam, env, args, kwargs, node):
        names = [a.arg for a in lam.args.args]
        saved = st.env
        new = dict(env)
        for n, v in zip(names, args):
            new[n] = v
        st.env = new
        st, v = self.eval(lam.body, st, acc)
        st.env = saved
        return st, v

    def call_closure(self, st, acc, fn, args, kwargs, node):
        """A nested `def` called inside its defining function: the body is inlined; free variables are the
        enclosing function's variables at call time (Python's by-reference capture).  No nonlocal stores."""
        if any(isinstance(n, (ast.Nonlocal, ast.Global, ast.Yield, ast.YieldFrom)) for n in ast.walk(fn)):
            raise Undecided("closure %s with nonlocal/global/yield" % fn.name)
        if fn.args.vararg or fn.args.kwarg or fn.args.kwonlyargs or kwargs:
            raise Undecided("closure %s signature" % fn.name)
        names = [a.arg for a in fn.args.args]
        if len(args) > len(names) or len(args) < len(names) - len(fn.args.defaults):
            raise Undecided("closure %s arity" % fn.name)
        if self.depth >= self.MAX_INLINE_DEPTH:
            raise Undecided("inline depth at closure %s" % fn.name)
        saved_env = st.env
        new = dict(saved_env)
        for n, v in zip(names, args):
            new[n] = v
        for n, d in zip(names[len(args):], fn.args.defaults[len(fn.args.defaults) - (len(names) - len(args)):]):
            st, dv = self.eval(d, st, acc)
            new[n] = dv
        self.depth += 1
        try:
            st.env = new
            inner = Acc()
            end = self.exec_block(fn.body, st, inner)
            outs = list(inner.returns)
            if end is not None:
                outs.append((end, self.mk_none()))
            for s, e in inner.raises:
                s.env = saved_env
                acc.raises.append((s, e))
            if inner.breaks or inner.continues:
                raise Undecided("break/continue escaping closure")
            if not outs:
                dead = st.copy()
                dead.env = saved_env
                dead.assume(z3.BoolVal(False))
                return dead, SV(self.u.fresh_val("noreturn"))
            if len(outs) == 1:
                res_state, res_val = outs[0]
            else:
                res_state, tails = self.merge_with_tails([s for s, _ in outs])
                res_val = self.merge_values([v for _, v in outs], tails)
                if res_val is POISON:
                    raise Undecided("results of closure %s cannot be merged" % fn.name)
            res_state.env = saved_env
            return res_state, res_val
        finally:
            self.depth -= 1

    # ------------------------------------------------------------------
    def construct(self, st, acc, cname, args, kwargs, node):
        ci = self.src.classes[cname]
        cid = "new:%s" % cname
        if cid in self.reg:
            return self.apply_contract(st, acc, self.reg[cid], None, None, args, kwargs, node)
        if self.src.exception_is_subclass(cname, "BaseException") or cname in self.exception_like:
            exc = self.alloc(st, cname)
            if args:
                a0 = self.box(st, args[0])
                self.write_field(st, exc, "args0", a0)
            for k, v in kwargs.items():
                if k != "**":
                    self.write_field(st, exc, k, self.box(st, v))
            return st, exc
        owner, init = self.src.lookup_method(cname, "__init__")
        obj = self.alloc(st, cname)
        if owner is None:
            return st, obj
        fid = self.fid(owner, "__init__")
        c = self.reg.get(fid)
        if c is not None and not c.inline:
            st, _ = self.apply_contract(st, acc, c, init, obj, args, kwargs, node)
            return st, obj
        st, _ = self.inline_body(st, acc, fid, init, obj, args, kwargs, node)
        return st, obj

    exception_like = set()

    # ------------------------------------------------------------------
    def module_call(self, st, acc, dotted, args, kwargs, node):
        u = self.u
        cid = "lib:%s" % dotted
        if cid in self.reg:
            return self.apply_contract(st, acc, self.reg[cid], None, None, args, kwargs, node)
        if dotted == "logging.getLogger":
            self.assumptions_used.add("A-noeffect")
            return st, SV(None, "module", py="logger")
        if dotted in DROPPED_CALLS or dotted.split(".")[-1] in DROPPED_METHOD_NAMES \
                and dotted.split(".")[0] in ("logging", "logger", "warnings", "sys"):
            self.assumptions_used.add("A-noeffect")
            return st, self.mk_none()
        if dotted == "sys.exc_info":
            self.assumptions_used.add("A-noeffect")
            return st, SV(None, "pytuple", py=tuple(SV(u.fresh_val("excinfo")) for _ in range(3)))
        if dotted in FRESH_MODULE_CALLS:
            self.assumptions_used.add("A-noeffect")
            k = FRESH_MODULE_CALLS[dotted]
            if k == "str":
                return st, SV(u.S(u.fresh("s", u.Str)), "str")
            if k == "float":
                return st, SV(u.X(u.fresh_int("t")), "float")
            return st, SV(u.fresh_val(dotted.replace(".", "_")))
        if dotted == "itertools.chain":
            res = args[0]
            for a in args[1:]:
                res = self.seq_concat(st, self.as_seq(st, res), self.as_seq(st, a))
            return st, res
        if dotted == "six.iteritems" and len(args) == 1 and args[0].kind == "ref" and args[0].cls == "dict":
            return st, SV(None, "dictview", py=("items", args[0]))
        if dotted in ("six.text_type", "six.u"):
            return self.bi_str(st, acc, args, kwargs, node)
        if dotted == "six.reraise":
            # re-raise the stored exception (value is args[1])
            exc = args[1] if len(args) > 1 else args[0]
            if exc.kind == "starred":
                raise Undecided("six.reraise(*info) without contract")
            acc.raises.append((st, exc))
            dead = st.copy()
            dead.assume(z3.BoolVal(False))
            return dead, self.mk_none()
        raise Undecided("library call %s" % dotted)

    def as_seq(self, st, sv):
        if sv.kind == "ref" and sv.cls in ("list", "tuple", "iterator"):
            return sv if sv.cls != "iterator" else SV(sv.z, "ref", cls="list", elem=sv.elem)
        if sv.kind == "pytuple":
            return self.new_list(st, [self.box(st, x) for x in sv.py], cls="tuple")
        raise Undecided("not a sequence: %r" % (sv,))

    # ------------------------------------------------------------------
    # contract application
    def apply_contract(self, st, acc, c, fn, selfv, args, kwargs, node):
        saved_cc = self.cur_contract
        try:
            return self._apply_contract(st, acc, c, fn, selfv, args, kwargs, node, saved_cc)
        finally:
            self.cur_contract = saved_cc

    def _apply_contract(self, st, acc, c, fn, selfv, args, kwargs, node, caller_cc):
        u = self.u
        if fn is None and not c.fid.startswith(("abs:", "lib:", "new:", "user:")):
            fn = self.src.function(c.fid)
        env = self.bind_params(st, fn, c, selfv, args, kwargs, acc)
        for name, t in c.params.items():
            if name in env and env[name].z is not None and env[name].kind in (None,):
                env[name] = self.typed(env[name].z, t)
            elif name in env and env[name].kind == "ref" and env[name].cls in ("list", "tuple") \
                    and env[name].elem is None and t.startswith("seq:"):
                # element type of the callee's view (its clauses are written against the declared type)
                a = env[name]
                env[name] = SV(a.z, "ref", cls=a.cls, elem=t[4:])
        if c.trusted:
            self.trusted_used.add(c.fid)
        # the callee's clauses are evaluated with the callee contract's globals/macros
        self.cur_contract = c
        # preconditions -> obligation of the caller
        if not self.in_spec:
            for label, text in c.requires:
                goal, facts = self.spec_formula(text, st, env)
                s2 = st
                if facts:
                    s2 = st.copy()
                    for f in facts:
                        s2.assume(f)
                self.oblige(s2, "callee-pre", "%s.%s" % (short_fid(c.fid), label), goal,
                            note="precondition %r of %s" % (text, c.fid))
                st.assume(goal)
        else:
            for label, text in c.requires:
                pass
        if self.in_spec and c.pure and not c.raises and not c.modifies:
            # inside a quantified body (comprehension / contract text) a fresh result constant would not depend
            # on the bound variable: use the defining clause  `result == E`  of a pure contract as the value
            for label, text in c.ensures:
                nd = self.parse_spec(text)
                if isinstance(nd, ast.Compare) and isinstance(nd.left, ast.Name) and nd.left.id == "result" \
                        and len(nd.ops) == 1 and isinstance(nd.ops[0], (ast.Eq, ast.Is)):
                    v, _facts = self.spec_value(ast.unparse(nd.comparators[0]), st, env)
                    return st, v
        old = st.copy()
        old_env = env
        # havoc
        self.havoc(st, c.modifies, env, old)
        # ghost arrays: functional update  G[idx] := val  (index and value evaluated in the pre-state)
        for gname, idx_text, val_text in c.ghost_stores:
            iv, _ = self.spec_value(idx_text, old, env)
            vv, _ = self.spec_value(val_text, old, env)
            vv = self.box(st, vv)
            arr = old.ghost[gname]
            key = self.as_int(iv) if arr.sort().domain() == u.Int else self.box(st, iv).z
            st.ghost[gname] = z3.Store(arr, key, vv.z)
        if not c.pure:
            na = u.fresh_int("alloc")
            st.assume(na >= st.alloc)
            st.alloc = na
        # result
        if c.fresh_result:
            if c.fresh_result.startswith("list:"):
                res = self.new_symbolic_seq(st, "list", c.fresh_result[5:])     # a new list of typed elements
            else:
                res = self.alloc(st, c.fresh_result)
        elif c.result:
            res = self.typed(u.fresh_val("res"), c.result)
            st.assume(self.type_pred(res.z, c.result))
            if res.kind in (None, "ref"):
                st.assume(z3.Implies(u.is_R(res.z), u.r(res.z) < st.alloc))
        else:
            res = SV(u.fresh_val("res"))
            st.assume(z3.Implies(u.is_R(res.z), u.r(res.z) < st.alloc))
        # exceptional successors
        prev = []
        for r in c.raises:
            if r.when is None:
                cond = u.fresh_bool("raises_%s" % r.exc)
            else:
                cond, facts = self.spec_formula(r.when, old, env)
                for f in facts:
                    st.assume(f)
            sx = st.copy()
            sx.assume(z3.And([cond] + [z3.Not(p) for p in prev]))
            exc = self.alloc(sx, r.exc)
            for label, text in r.ensures:
                f, facts = self.spec_formula(text, sx, env, old=(old, old_env), extra={"exc": exc})
                for x in facts:
                    sx.assume(x)
                sx.assume(f)
            acc.raises.append((sx, exc))
            prev.append(cond)
        for p in prev:
            st.assume(z3.Not(p))
        for label, text in c.ensures:
            f, facts = self.spec_formula(text, st, env, old=(old, old_env), extra={"result": res})
            for x in facts:
                st.assume(x)
            st.assume(f)
        return st, res

    def havoc(self, st, modifies, env, old):
        u = self.u
        for m in modifies:
            if m.startswith("G_"):
                g = m[2:]
                if g not in st.ghost:
                    raise Undecided("ghost %s not declared" % g)
                st.ghost[g] = u.fresh("g_" + g, st.ghost[g].sort())
            elif m.startswith("*."):
                f = m[2:]
                self.heap_array(st, f)
                st.heap[f] = u.fresh("H_" + f, u.FieldSort)
            elif m == "lists":
                for key in ("$len", "$at"):
                    new = u.fresh("H" + key.replace("$", "_"), self.heap_array(st, key).sort())
                    st.heap[key] = new
            elif m == "dicts":
                for key in ("$has", "$val", "$dlen", "$klen", "$kat"):
                    new = u.fresh("H" + key.replace("$", "_"), self.heap_array(st, key).sort())
                    st.heap[key] = new
            elif m.startswith("list(") or m.startswith("dict("):
                inner = m[5:-1]
                v, _ = self.spec_value(inner, old, env)
                r = u.r(v.z)
                keys = ("$len", "$at") if m.startswith("list(") else ("$has", "$val", "$dlen", "$klen", "$kat")
                for key in keys:
                    arr = self.heap_array(st, key)
                    st.heap[key] = z3.Store(arr, r, u.fresh("hv", arr.sort().range()))
                if m.startswith("list("):
                    st.assume(st.heap["$len"][r] >= 0)
                else:
                    st.assume(st.heap["$dlen"][r] >= 0)
                    st.assume(st.heap["$klen"][r] >= 0)
            elif m.startswith("each("):
                # each(seq_expr).field : the field of every element of the sequence
                inner, f = m[5:].split(").", 1)
                seqv, _ = self.spec_value(inner, old, env)
                r = u.r(seqv.z)
                arr = self.heap_array(st, f)
                new = u.fresh("H_" + f, u.FieldSort)
                x = u.fresh_int("x")
                k = u.fresh_int("k")
                n = self.heap_array(old, "$len")[r]
                el = self.heap_array(old, "$at")[r]
                member = z3.Exists([k], z3.And(0 <= k, k < n, el[k] == u.R(x)))
                st.assume(z3.ForAll([x], z3.Or(new[x] == arr[x], member)))
                st.heap[f] = new
            elif m == "alloc":
                pass
            elif m == "yields":
                # the sequence of values yielded so far (generator functions)
                ys = env.get("$yields") or st.env.get("$yields")
                if ys is None:
                    raise Undecided("`yields` in a modifies clause of a function that is not a generator")
                r = u.r(ys.z)
                for key in ("$len", "$at"):
                    arr = self.heap_array(st, key)
                    st.heap[key] = z3.Store(arr, r, u.fresh("hv", arr.sort().range()))
                st.assume(st.heap["$len"][r] >= 0)
            else:
                path, f = m.rsplit(".", 1)
                v, _ = self.spec_value(path, old, env)
                r = u.r(v.z)
                arr = self.heap_array(st, f)
                st.heap[f] = z3.Store(arr, r, u.fresh_val("hv_" + f))

    # ------------------------------------------------------------------
    def expr_override(self, st, acc, spec, node):
        """Sidecar override for one expression text: ("fresh", type) | ("contract", id) | ("const", value)."""
        kind = spec[0]
        self.assumptions_used.add("expr-override:%s" % ast.unparse(node))
        if kind == "fresh":
            t = spec[1]
            sv = self.typed(self.u.fresh_val("ovr"), t)
            st.assume(self.type_pred(sv.z, t))
            return st, sv
        if kind == "const":
            return st, self.mk_const(spec[1])
        if kind == "callable":
            return st, SV(self.u.fresh_val("cb"), "callable", py=("contract", spec[1]))
        if kind == "contract":
            st, args, kwargs = self.eval_args(node, st, acc)
            return self.apply_contract(st, acc, self.get_contract(spec[1]), None, None, args, kwargs, node)
        raise Undecided("override kind %s" % kind)

    # ------------------------------------------------------------------
    # builtins
    def bi_len(self, st, acc, args, kwargs, node):
        v = args[0]
        if v.kind == "pytuple":
            return st, self.mk_int(len(v.py))
        if v.kind == "str":
            if v.cases is not None:
                return st, self.mk_int(self._fold_cases(v, lambda s: z3.IntVal(len(s)), z3.IntSort()))
            n = self.u.str_len(self.as_str(v))
            st.assume(n >= 0)
            return st, self.mk_int(n)
        if v.z is not None and v.cls == "tuple":
            n = self.tuple_len_f()(self.u.r(v.z))
            st.assume(n >= 0)
            return st, self.mk_int(n)
        if v.z is not None and v.cls in ("dict", "set"):
            n = self.heap_array(st, "$dlen")[self.u.r(v.z)]
            st.assume(n >= 0)
            return st, self.mk_int(n)
        if v.z is not None and v.cls == "dictkeys":
            n = self.heap_array(st, "$klen")[self.u.r(v.z)]
            st.assume(n >= 0)
            return st, self.mk_int(n)
        if v.z is not None and v.cls in ("list", "tuple"):
            n = self.heap_array(st, "$len")[self.u.r(v.z)]
            st.assume(n >= 0)
            return st, self.mk_int(n)
        if v.z is not None and v.cls is not None:
            owner, fn = self.src.lookup_method(v.cls, "__len__")
            if owner:
                return self.call_method(st, acc, SV(v.z, "ref", cls=v.cls), "__len__", [], {}, node)
        if v.z is not None and v.kind is None and v.cls is None:
            # value of unknown static kind: supported when it is provably a string (tuple items, dict values)
            if not self.in_spec:
                self.oblige(st, "type", self.auto_label(node, "lenstr"), self.u.is_S(v.z),
                            note="len() of a value of unknown static type: must be a string here (engine restriction)")
            st.assume(self.u.is_S(v.z))
            n = self.u.str_len(self.u.s(v.z))
            st.assume(n >= 0)
            return st, self.mk_int(n)
        raise Undecided("len of %r" % (v,))

    def bi_bool(self, st, acc, args, kwargs, node):
        if not args:
            return st, self.mk_bool(False)
        return st, self.mk_bool(self.truthy(args[0], st))

    def bi_callable(self, st, acc, args, kwargs, node):
        v = args[0]
        if v.kind == "callable":
            return st, self.mk_bool(True)
        if v.kind in ("int", "str", "bool", "none", "enum"):
            return st, self.mk_bool(False)
        f = self.u.uf("is_callable", self.u.Val, self.u.Bool)
        return st, self.mk_bool(f(v.z))

    def bi_print(self, st, acc, args, kwargs, node):
        self.assumptions_used.add("A-noeffect")
        return st, self.mk_none()

    def bi_id(self, st, acc, args, kwargs, node):
        return st, self.mk_int(self.u.uf("py_id", self.u.Val, self.u.Int)(args[0].z))

    def bi_repr(self, st, acc, args, kwargs, node):
        return st, SV(self.u.S(self.u.fresh("repr", self.u.Str)), "str")

    def bi_hash(self, st, acc, args, kwargs, node):
        v = self.box(st, args[0])
        return st, self.mk_int(self.u.uf("py_hash", self.u.Val, self.u.Int)(v.z))

    def bi_str(self, st, acc, args, kwargs, node):
        if not args:
            return st, self.mk_str("")
        v = args[0]
        if v.kind == "str":
            return st, v
        if v.kind == "int":
            zi = z3.simplify(self.as_int(v))
            if z3.is_int_value(zi):
                return st, self.mk_str(str(zi.as_long()))
        v = self.box(st, v)
        f = self.u.uf("py_str", self.u.Val, self.u.Str)
        return st, SV(self.u.S(f(v.z)), "str")

    def bi_int(self, st, acc, args, kwargs, node):
        v = args[0]
        if v.kind == "int":
            return st, v
        if v.kind == "bool":
            return st, self.mk_int(z3.If(self.as_boolz(v), 1, 0))
        u = self.u
        ok = u.uf("int_parses", u.Val, u.Bool)(v.z)
        bad = st.copy()
        bad.assume(z3.Not(ok))
        exc = self.alloc(bad, "ValueError")
        acc.raises.append((bad, exc))
        st.assume(ok)
        return st, self.mk_int(u.uf("int_of", u.Val, u.Int)(v.z))

    def bi_isinstance(self, st, acc, args, kwargs, node):
        v, spec = args
        return st, self.mk_bool(self.isinstance_formula(st, v, spec))

    def isinstance_formula(self, st, v, spec):
        u = self.u
        if spec.kind == "pytuple":
            return z3.Or([self.isinstance_formula(st, v, s) for s in spec.py])
        if spec.kind == "module":
            name = spec.py
            if name in ("six.string_types", "six.text_type"):
                return self._kind_test(v, "str", u.is_S)
            if name == "six.binary_type":
                return z3.BoolVal(False) if v.kind in ("str", "int", "bool", "ref", "enum", "none") \
                    else u.uf("is_bytes", u.Val, u.Bool)(v.z)
            if name == "six.integer_types":
                return self._kind_test(v, "int", u.is_I)
            last = name.rsplit(".", 1)[-1]
            if "." in name and last in self.src.classes and last not in u.enum_classes:
                # a module-qualified class of the repository (model.ScenarioOutline)
                return self.isinstance_formula(st, v, SV(None, "class", py=last))
            raise Undecided("isinstance with %s" % name)
        if spec.kind == "callable" and spec.py[0] == "builtin":
            name = spec.py[1]
            if name == "str":
                return self._kind_test(v, "str", u.is_S)
            if name == "int":
                if v.kind in ("int", "bool"):
                    return z3.BoolVal(True)
                if v.kind is not None:
                    return z3.BoolVal(False)
                return z3.Or(u.is_I(v.z), u.is_B(v.z))
            if name == "bool":
                return self._kind_test(v, "bool", u.is_B)
            if name in ("list", "tuple", "dict", "set"):
                if v.kind == "pytuple":
                    return z3.BoolVal(name == "tuple")
                if v.kind is not None and v.kind != "ref":
                    return z3.BoolVal(False)
                if v.kind == "ref" and v.cls is not None:
                    return z3.BoolVal(v.cls == name)
                return z3.And(u.is_R(v.z), u.typeof(u.r(v.z)) == u.class_id(name))
            raise Undecided("isinstance with builtin %s" % name)
        if spec.kind == "class":
            cname = spec.py
            if cname in u.enum_classes:
                if v.kind == "enum":
                    return z3.BoolVal(v.cls == cname)
                if v.kind is not None:
                    return z3.BoolVal(False)
                return u.is_enum_of(v.z, cname)
            if v.kind == "pytuple" or v.z is None:
                return z3.BoolVal(False)
            if v.kind is not None and v.kind != "ref":
                return z3.BoolVal(False)
            if v.kind == "ref" and v.cls is not None and v.cls not in self.src.virtual \
                    and self.src.is_subclass(v.cls, cname):
                return z3.BoolVal(True)
            return z3.And(u.is_R(v.z), self.class_test(u.r(v.z), cname))
        raise Undecided("isinstance spec %r" % (spec,))

    def _kind_test(self, v, kind, tester):
        if v.kind == kind:
            return z3.BoolVal(True)
        if v.kind is not None or v.z is None:
            return z3.BoolVal(False)
        return tester(v.z)

    def bi_getattr(self, st, acc, args, kwargs, node):
        obj, name = args[0], args[1]
        default = args[2] if len(args) > 2 else None
        if name.kind != "str" or name.cases is None or len(name.cases) != 1:
            raise Undecided("getattr with non-constant name")
        attr = name.cases[0][1]
        if default is None:
            return self.get_attr(st, obj, attr, acc, node)
        if obj.kind is None and obj.z is not None and obj.cls is not None:
            if not self.in_spec:
                self.oblige(st, "deref", self.auto_label(node, "deref"), self.u.is_R(obj.z),
                            note="getattr() receiver is an object (not None)")
            st.assume(self.u.is_R(obj.z))
            obj = SV(obj.z, "ref", cls=obj.cls, elem=obj.elem)
        # with default: AttributeError -> default
        if obj.kind == "ref" and obj.cls is not None:
            cls = obj.cls
            if self.src.lookup_property(cls, attr)[0] or self.field_type(cls, attr) is not None \
                    or self.src.lookup_method(cls, attr)[0] or self.src.lookup_const(cls, attr)[0]:
                subs = self.src.subclasses(cls)
                return self.get_attr(st, obj, attr, acc, node)
            owner, fn = self.src.lookup_method(cls, "__getattr__")
            if owner is not None:
                inner = Acc()
                s2 = st.copy()
                s2, v = self.call_method(s2, inner, obj, "__getattr__", [self.mk_str(attr)], {}, node)
                outs = [s2]
                vals = [v]
                for sx, exc in inner.raises:
                    # AttributeError -> default ; anything else propagates
                    is_attr = self.class_test(self.as_ref(exc), "AttributeError")
                    s_def = sx.copy()
                    s_def.assume(is_attr)
                    outs.append(s_def)
                    vals.append(default)
                    s_other = sx
                    s_other.assume(z3.Not(is_attr))
                    acc.raises.append((s_other, exc))
                merged, tails = self.merge_with_tails(outs)
                val = self.merge_values([self.box(merged, x) for x in vals], tails)
                if val is POISON:
                    raise Undecided("getattr default merge")
                return merged, val
            # attribute may exist only in some subclasses
            subs = [s for s in self.src.subclasses(cls)
                    if self.src.lookup_method(s, attr)[0] or self.src.lookup_property(s, attr)[0]
                    or self.field_type(s, attr) is not None]
            if not subs:
                # undeclared instance attribute: presence unknown
                present = self.u.uf("has_attr_" + attr, self.u.Int, self.u.Bool)(self.as_ref(obj))
                val = self.read_field(st, obj, attr)
                d = self.box(st, default)
                return st, SV(z3.If(present, val.z, d.z), None, cls=val.cls)
            raise Undecided("getattr(%s, %r, default) present only in subclasses %s" % (cls, attr, subs))
        raise Undecided("getattr on %r" % (obj,))

    def bi_hasattr(self, st, acc, args, kwargs, node):
        obj, name = args
        if name.kind == "str" and name.cases and len(name.cases) == 1 and obj.kind == "ref" and obj.cls:
            attr = name.cases[0][1]
            cls = obj.cls
            if self.src.lookup_property(cls, attr)[0] or self.field_type(cls, attr) is not None \
                    or self.src.lookup_method(cls, attr)[0] or self.src.lookup_const(cls, attr)[0]:
                return st, self.mk_bool(True)
            present = self.u.uf("has_attr_" + attr, self.u.Int, self.u.Bool)(self.as_ref(obj))
            return st, self.mk_bool(present)
        raise Undecided("hasattr")

    def bi_setattr(self, st, acc, args, kwargs, node):
        obj, name, value = args
        if name.kind == "str" and name.cases and len(name.cases) == 1:
            return self.set_attr(st, acc, obj, name.cases[0][1], value, node), self.mk_none()
        if obj.kind == "ref" and obj.cls and self.src.lookup_method(obj.cls, "__setattr__")[0]:
            return self.call_method(st, acc, obj, "__setattr__", [name, value], {}, node)
        raise Undecided("setattr with symbolic name")

    def bi_set(self, st, acc, args, kwargs, node):
        u = self.u
        if not args:
            return st, self.new_set(st, [])
        src = args[0]
        if src.kind == "pytuple":
            return st, self.new_set(st, [self.box(st, x) for x in src.py])
        if src.kind == "ref" and src.cls in ("list", "tuple", "set"):
            res = self.alloc(st, "set", src.elem)
            r = self.as_ref(res)
            rs = self.as_ref(src)
            has = u.fresh("sethas", u.HasInner)
            x = u.fresh_val("x")
            if src.cls == "set":
                st.assume(has == self.heap_array(st, "$has")[rs])
                n = self.heap_array(st, "$dlen")[rs]
            else:
                k = u.fresh_int("k")
                ln = self.seq_len(st, src)
                elf = self.seq_elems(st, src)
                st.assume(z3.ForAll([x], has[x] == z3.Exists([k], z3.And(0 <= k, k < ln, elf(k) == x))))
                st.assume(z3.ForAll([k], z3.Implies(z3.And(0 <= k, k < ln), has[elf(k)])))
                n = u.fresh_int("setlen")
                st.assume(z3.And(n >= 0, n <= ln, (n == 0) == (ln == 0)))
            st.heap["$has"] = z3.Store(self.heap_array(st, "$has"), r, has)
            st.heap["$dlen"] = z3.Store(self.heap_array(st, "$dlen"), r, n)
            return st, res
        raise Undecided("set(%r)" % (src,))

    def bi_list(self, st, acc, args, kwargs, node):
        if not args:
            return st, self.new_list(st, [])
        src = args[0]
        if src.kind == "pytuple":
            return st, self.new_list(st, [self.box(st, x) for x in src.py])
        if src.kind == "ref" and src.cls == "tuple":
            u = self.u
            n = self.seq_len(st, src)
            res = self.new_symbolic_seq(st, "list", src.elem, length=n)
            k = u.fresh_int("k")
            se, de = self.seq_elems(st, src), self.seq_elems(st, res)
            st.assume(z3.ForAll([k], z3.Implies(z3.And(0 <= k, k < n), de(k) == se(k))))
            return st, res
        if src.kind == "ref" and src.cls in ("list", "iterator"):
            u = self.u
            rs = self.as_ref(src)
            res = self.alloc(st, "list", src.elem)
            r = self.as_ref(res)
            st.heap["$len"] = z3.Store(self.heap_array(st, "$len"), r, self.heap_array(st, "$len")[rs])
            st.heap["$at"] = z3.Store(self.heap_array(st, "$at"), r, self.heap_array(st, "$at")[rs])
            return st, res
        if src.kind == "ref" and src.cls is not None and src.cls not in CONTAINER_CLASSES:
            owner, fn = self.src.lookup_method(src.cls, "__iter__")
            if owner:
                st, it = self.call_method(st, acc, src, "__iter__", [], {}, node)
                return self.bi_list(st, acc, [it], {}, node)
        if src.kind == "dictview" or (src.kind == "ref" and src.cls == "set"):
            seq = self.iterable_to_seq(st, acc, src, node)
            return st, seq
        raise Undecided("list(%r)" % (src,))

    def bi_tuple(self, st, acc, args, kwargs, node):
        if args and args[0].kind == "ref" and args[0].cls == "tuple":
            return st, args[0]
        st, l = self.bi_list(st, acc, args, kwargs, node)
        n = self.seq_len(st, l)
        res = self.new_symbolic_seq(st, "tuple", l.elem, length=n)
        k = self.u.fresh_int("k")
        se, de = self.seq_elems(st, l), self.seq_elems(st, res)
        st.assume(z3.ForAll([k], z3.Implies(z3.And(0 <= k, k < n), de(k) == se(k))))
        return st, res

    def bi_iter(self, st, acc, args, kwargs, node):
        src = args[0]
        if src.kind == "ref" and src.cls in ("list", "tuple", "iterator"):
            return st, src
        if src.kind == "pytuple":
            return st, src
        if src.kind == "ref" and src.cls is not None and src.cls not in CONTAINER_CLASSES:
            # iter(obj) == obj.__iter__()  (abstract contract or real method)
            return self.call_method(st, acc, src, "__iter__", [], {}, node)
        raise Undecided("iter(%r)" % (src,))

    def bi_reversed(self, st, acc, args, kwargs, node):
        src = args[0]
        return st, SV(None, "reversed", py=src)

    def bi_enumerate(self, st, acc, args, kwargs, node):
        return st, SV(None, "enumerate", py=args[0])

    def bi_zip(self, st, acc, args, kwargs, node):
        return st, SV(None, "zip", py=tuple(args))

    def bi_sorted(self, st, acc, args, kwargs, node):
        """sorted(seq): a new list of the same length holding the same elements (order unspecified: A-lib)."""
        u = self.u
        src = self.iterable_to_seq(st, acc, args[0], node)
        n = self.seq_len(st, src)
        res = self.new_symbolic_seq(st, "list", src.elem, length=n)
        rel = u.fresh("sorted", u.ElemsSort)
        st.heap["$at"] = z3.Store(self.heap_array(st, "$at"), self.as_ref(res), rel)
        sel = self.seq_elems(st, src)
        j = u.fresh_int("j")
        k = u.fresh_int("k")
        st.assume(z3.ForAll([j], z3.Implies(z3.And(0 <= j, j < n), z3.Exists([k], z3.And(0 <= k, k < n, rel[j] == sel(k)))),
                            patterns=[rel[j]]))
        self.assumptions_used.add("A-lib:sorted")
        return st, SV(res.z, "ref", cls="list", elem=src.elem)

    def bi_range(self, st, acc, args, kwargs, node):
        return st, SV(None, "range", py=tuple(args))

    def bi_max(self, st, acc, args, kwargs, node):
        if len(args) == 2 and args[0].kind == "int" and args[1].kind == "int":
            a, b = self.as_int(args[0]), self.as_int(args[1])
            return st, self.mk_int(z3.If(a >= b, a, b))
        raise Undecided("max")

    def bi_min(self, st, acc, args, kwargs, node):
        if len(args) == 2 and args[0].kind == "int" and args[1].kind == "int":
            a, b = self.as_int(args[0]), self.as_int(args[1])
            return st, self.mk_int(z3.If(a <= b, a, b))
        raise Undecided("min")

    def bi_type(self, st, acc, args, kwargs, node):
        return st, SV(None, "classof", py=args[0])

    def bi_any(self, st, acc, args, kwargs, node):
        return self.any_all(st, acc, args, node, True)

    def bi_all(self, st, acc, args, kwargs, node):
        return self.any_all(st, acc, args, node, False)

    def any_all(self, st, acc, args, node, is_any):
        u = self.u
        src = node.args[0] if node is not None and node.args else None
        if isinstance(src, (ast.GeneratorExp, ast.ListComp)):
            return self.quantified_comprehension(st, acc, src, is_any)
        v = args[0]
        if v.kind == "pytuple":
            ts = [self.truthy(x, st) for x in v.py]
            return st, self.mk_bool(z3.Or(ts) if is_any else z3.And(ts))
        if v.kind == "ref" and v.cls in ("list", "tuple"):
            k = u.fresh_int("k")
            n = self.seq_len(st, v)
            el = self.seq_get(st.copy(), v, k)
            t = self.truthy(el, st)
            rng = z3.And(0 <= k, k < n)
            return st, self.mk_bool(z3.Exists([k], z3.And(rng, t)) if is_any
                                    else z3.ForAll([k], z3.Implies(rng, t)))
        raise Undecided("any/all over %r" % (v,))

    def e_GeneratorExp(self, node, st, acc):
        return st, SV(None, "genexp", py=(node, dict(st.env)))

    def e_ListComp(self, node, st, acc):
        """[f(x) for x in seq]  with a pure element expression (no filter)."""
        u = self.u
        if len(node.generators) != 1:
            raise Undecided("nested comprehension")
        g = node.generators[0]
        st, src = self.eval(g.iter, st, acc)
        src = self.iterable_to_seq(st, acc, src, node)
        k = u.fresh_int("k")
        n = self.seq_len(st, src)
        tmp = st.copy()
        el = self.seq_get(tmp, src, k)
        tmp.env = dict(st.env)
        self.bind_target(tmp, g.target, el, acc)
        conds = []
        for cnd in g.ifs:
            t2, cv = self.pure_eval(cnd, tmp)
            conds.append(self.truthy(cv, tmp))
        alloc_c = self.allocating_contract(node.elt) if not conds else None
        if alloc_c is not None:
            return self.allocating_comprehension(st, acc, node, g, src, alloc_c)
        _, val = self.pure_eval(node.elt, tmp)
        val = self.box(tmp, val)
        if conds:
            # filtered list: only membership-level facts
            res = self.new_symbolic_seq(st, "list", None)
            rr = self.as_ref(res)
            j = u.fresh_int("j")
            rl = self.seq_len(st, res)
            rel = self.heap_array(st, "$at")[rr]
            flt = z3.And(conds)
            x = u.fresh_val("x")
            st.assume(rl <= n)
            st.assume(z3.ForAll([j], z3.Implies(z3.And(0 <= j, j < rl),
                      z3.Exists([k], z3.And(0 <= k, k < n, flt, rel[j] == val.z)))))
            st.assume(z3.ForAll([k], z3.Implies(z3.And(0 <= k, k < n, flt),
                      z3.Exists([j], z3.And(0 <= j, j < rl, rel[j] == val.z)))))
            return st, SV(res.z, "ref", cls="list", elem=None)
        res = self.new_symbolic_seq(st, "list", None, length=n)
        rel = self.heap_array(st, "$at")[self.as_ref(res)]
        st.assume(z3.ForAll([k], z3.Implies(z3.And(0 <= k, k < n), rel[k] == val.z)))
        return st, SV(res.z, "ref", cls="list", elem=self.elem_type_of(val))

    def allocating_contract(self, elt):
        """The element expression of a comprehension is a call whose contract returns a fresh object
        (lib:<module>.<f> or a call-site override of the current contract)."""
        if not isinstance(elt, ast.Call) or elt.keywords:
            return None
        ftext = ast.unparse(elt.func)
        c = self.cur_contract
        cid = None
        if c is not None and ftext in c.callsites:
            cid = c.callsites[ftext]
        elif ("lib:" + ftext) in self.reg:
            cid = "lib:" + ftext
        if cid is None:
            return None
        cc = self.reg.get(cid)
        if cc is None or not cc.fresh_result or cc.modifies or cc.raises or cc.requires:
            return None
        return cc

    def allocating_comprehension(self, st, acc, node, g, src, cc):
        """[f(x) for x in seq] where f returns a fresh object: a block of len(seq) new objects, the k-th one
        satisfying f's postconditions for seq[k]."""
        u = self.u
        n = self.seq_len(st, src)
        base = u.fresh_int("blk")
        st.assume(base == st.alloc)
        st.assume(n >= 0)
        st.alloc = base + n
        k = u.fresh_int("k")
        cid = u.class_id(cc.fresh_result)
        rng = z3.And(0 <= k, k < n)
        st.assume(z3.ForAll([k], z3.Implies(rng, u.typeof(base + k) == cid)))
        res = self.new_symbolic_seq(st, "list", "ref:" + cc.fresh_result, length=n)
        rel = u.fresh("mapped", u.ElemsSort)
        st.heap["$at"] = z3.Store(self.heap_array(st, "$at"), self.as_ref(res), rel)
        st.assume(z3.ForAll([k], z3.Implies(rng, rel[k] == u.R(base + k)), patterns=[rel[k]]))
        # the callee's postconditions for the k-th element
        tmp = st.copy()
        el = self.seq_get(tmp, src, k)
        tmp.env = dict(st.env)
        self.bind_target(tmp, g.target, el, acc)
        saved_cc = self.cur_contract
        try:
            args = []
            for a in node.elt.args:
                _, av = self.pure_eval(a, tmp)
                args.append(av)
            env = self.bind_params(tmp, None, cc, None, args, {}, acc)
            resk = self.mk_ref(base + k, cc.fresh_result, None)
            self.cur_contract = cc
            for label, text in cc.ensures:
                f, _facts = self.spec_formula(text, tmp, env, old=(tmp, env), extra={"result": resk})
                st.assume(z3.ForAll([k], z3.Implies(rng, f), patterns=[rel[k]]))
        finally:
            self.cur_contract = saved_cc
        if cc.trusted:
            self.trusted_used.add(cc.fid)
        return st, SV(res.z, "ref", cls="list", elem="ref:" + cc.fresh_result)

    def elem_type_of(self, sv):
        if sv.kind in ("int", "bool", "str"):
            return sv.kind
        if sv.kind == "enum":
            return sv.cls
        if sv.kind == "ref" and sv.cls and sv.cls not in CONTAINER_CLASSES:
            return "ref:" + sv.cls
        return None

    def pure_eval(self, node, st):
        """Evaluate an expression that must not change the state (comprehension bodies)."""
        before = (len(st.pc), dict(st.heap), st.alloc)
        tmp_acc = Acc()
        saved = self.in_spec
        self.in_spec = True     # no obligations inside quantified bodies
        try:
            s2, v = self.eval(node, st, tmp_acc)
        finally:
            self.in_spec = saved
        del st.pc[before[0]:]
        return st, v

    def quantified_comprehension(self, st, acc, comp, is_any):
        u = self.u
        if len(comp.generators) != 1:
            raise Undecided("nested comprehension in any/all")
        g = comp.generators[0]
        st, src = self.eval(g.iter, st, acc)
        src = self.iterable_to_seq(st, acc, src, comp)
        k = u.fresh_int("k")
        n = self.seq_len(st, src)
        tmp = st.copy()
        el = self.seq_get(tmp, src, k)
        self.bind_target(tmp, g.target, el, acc)
        conds = [z3.And(0 <= k, k < n)]
        for cnd in g.ifs:
            _, cv = self.pure_eval(cnd, tmp)
            conds.append(self.truthy(cv, tmp))
        _, val = self.pure_eval(comp.elt, tmp)
        t = self.truthy(val, tmp)
        if is_any:
            return st, self.mk_bool(z3.Exists([k], z3.And(conds + [t])))
        return st, self.mk_bool(z3.ForAll([k], z3.Implies(z3.And(conds), t)))

    def bi_sum(self, st, acc, args, kwargs, node):
        raise Undecided("sum()")

    def bi_dict(self, st, acc, args, kwargs, node):
        if not args:
            d = self.new_dict(st)
            for k, v in kwargs.items():
                self.dict_set(st, d, self.mk_str(k), self.box(st, v))
            return st, d
        raise Undecided("dict(x)")

    def bi_next(self, st, acc, args, kwargs, node):
        raise Undecided("next()")

    # ------------------------------------------------------------------
    # container methods
    def container_method(self, st, acc, recv, name, args, kwargs, node):
        u = self.u
        cls = recv.cls
        r = self.as_ref(recv)
        if cls in ("list", "tuple"):
            if name == "append":
                self.seq_append(st, recv, self.box(st, args[0]))
                return st, self.mk_none()
            if name == "extend":
                other = self.iterable_to_seq(st, acc, args[0], node)
                cat = self.seq_concat(st, recv, other)
                rc = self.as_ref(cat)
                st.heap["$len"] = z3.Store(st.heap["$len"], r, st.heap["$len"][rc])
                st.heap["$at"] = z3.Store(st.heap["$at"], r, st.heap["$at"][rc])
                return st, self.mk_none()
            if name == "insert":
                idx = args[0]
                zi = z3.simplify(self.as_int(idx))
                if not (z3.is_int_value(zi) and zi.as_long() == 0):
                    raise Undecided("list.insert at non-zero index")
                item = self.box(st, args[1])
                n = self.heap_array(st, "$len")[r]
                old = self.heap_array(st, "$at")[r]
                new = u.fresh("ins", u.ElemsSort)
                k = u.fresh_int("k")
                st.assume(new[0] == item.z)
                oldc = u.fresh("insold", u.ElemsSort)
                st.assume(oldc == old)
                st.assume(z3.ForAll([k], z3.Implies(z3.And(0 <= k, k < n), new[k + 1] == oldc[k]),
                                    patterns=[oldc[k], new[k + 1]]))
                st.heap["$at"] = z3.Store(st.heap["$at"], r, new)
                st.heap["$len"] = z3.Store(st.heap["$len"], r, n + 1)
                return st, self.mk_none()
            if name == "pop":
                n = self.heap_array(st, "$len")[r]
                old = self.heap_array(st, "$at")[r]
                if not self.in_spec:
                    self.index_check(st, acc, n > 0, node, "pop from non-empty list")
                if not args:
                    val = self.seq_get(st, recv, n - 1)
                    st.heap["$len"] = z3.Store(st.heap["$len"], r, n - 1)
                    return st, val
                zi = z3.simplify(self.as_int(args[0]))
                if z3.is_int_value(zi) and zi.as_long() == 0:
                    val = self.seq_get(st, recv, z3.IntVal(0))
                    new = u.fresh("pop", u.ElemsSort)
                    k = u.fresh_int("k")
                    oldc = u.fresh("popold", u.ElemsSort)
                    st.assume(oldc == old)
                    st.assume(z3.ForAll([k], z3.Implies(z3.And(0 <= k, k < n - 1), new[k] == oldc[k + 1]),
                                        patterns=[new[k], oldc[k + 1]]))
                    st.heap["$at"] = z3.Store(st.heap["$at"], r, new)
                    st.heap["$len"] = z3.Store(st.heap["$len"], r, n - 1)
                    return st, val
                raise Undecided("list.pop(i)")
            if name == "index":
                item = self.box(st, args[0])
                n = self.heap_array(st, "$len")[r]
                el = self.heap_array(st, "$at")[r]
                k = u.fresh_int("k")
                found = z3.Exists([k], z3.And(0 <= k, k < n, el[k] == item.z))
                bad = st.copy()
                bad.assume(z3.Not(found))
                acc.raises.append((bad, self.alloc(bad, "ValueError")))
                st.assume(found)
                res = u.fresh_int("idx")
                st.assume(z3.And(0 <= res, res < n, el[res] == item.z))
                j = u.fresh_int("j")
                st.assume(z3.ForAll([j], z3.Implies(z3.And(0 <= j, j < res), el[j] != item.z)))
                return st, self.mk_int(res)
            if name == "remove":
                # removes the first occurrence (ValueError when absent); the rest keeps its relative order:
                # modelled as a new content of length-1 all of whose elements come from the old content
                item = self.box(st, args[0])
                n = self.heap_array(st, "$len")[r]
                old_el = self.heap_array(st, "$at")[r]
                k = u.fresh_int("k")
                j = u.fresh_int("j")
                found = z3.Exists([k], z3.And(0 <= k, k < n, old_el[k] == item.z))
                bad = st.copy()
                bad.assume(z3.Not(found))
                acc.raises.append((bad, self.alloc(bad, "ValueError")))
                st.assume(found)
                new = u.fresh("removed", u.ElemsSort)
                st.assume(z3.ForAll([j], z3.Implies(z3.And(0 <= j, j < n - 1),
                                                    z3.Exists([k], z3.And(0 <= k, k < n, new[j] == old_el[k]))),
                                    patterns=[new[j]]))
                st.heap["$at"] = z3.Store(st.heap["$at"], r, new)
                st.heap["$len"] = z3.Store(st.heap["$len"], r, n - 1)
                return st, self.mk_none()
            if name == "copy":
                return self.bi_list(st, acc, [recv], {}, node)
            raise Undecided("list.%s" % name)
        if cls == "dict":
            if name == "get":
                key = self.box(st, args[0])
                default = self.box(st, args[1]) if len(args) > 1 else self.mk_none()
                has = self.heap_array(st, "$has")[r][key.z]
                val = self.heap_array(st, "$val")[r][key.z]
                t = self.dict_value_type(recv, key)
                tv = self.typed(val, t)
                if t:
                    st.assume(z3.Implies(has, self.type_pred(val, t)))
                st.assume(z3.Implies(z3.And(has, u.is_R(val)), u.r(val) < st.alloc))
                z = z3.If(has, val, default.z)
                if default.kind == tv.kind and tv.kind is not None:
                    return st, SV(z, tv.kind, cls=tv.cls, elem=tv.elem)
                return st, SV(z, None, cls=tv.cls, elem=tv.elem)
            if name in ("items", "keys", "values"):
                return st, SV(None, "dictview", py=(name, recv))
            if name == "setdefault":
                key = self.box(st, args[0])
                default = self.box(st, args[1]) if len(args) > 1 else self.mk_none()
                has = self.heap_array(st, "$has")[r][key.z]
                s1 = st.copy()
                s1.assume(has)
                s2 = st.copy()
                s2.assume(z3.Not(has))
                self.dict_set(s2, recv, key, default)
                merged = self.merge([s1, s2])
                val = self.heap_array(merged, "$val")[r][key.z]
                return merged, SV(val)
            if name == "pop":
                key = self.box(st, args[0])
                has = self.heap_array(st, "$has")[r][key.z]
                val = self.heap_array(st, "$val")[r][key.z]
                if len(args) < 2:
                    if not self.in_spec:
                        self.oblige(st, "key", self.auto_label(node, "key"), has, note="dict.pop key present")
                    st.assume(has)
                    result = SV(val)
                else:
                    d = self.box(st, args[1])
                    result = SV(z3.If(has, val, d.z))
                hs = self.heap_array(st, "$has")[r]
                n = self.heap_array(st, "$dlen")[r]
                st.heap["$has"] = z3.Store(st.heap["$has"], r, z3.Store(hs, key.z, z3.BoolVal(False)))
                st.heap["$dlen"] = z3.Store(st.heap["$dlen"], r, z3.If(has, n - 1, n))
                # key order after a removal is not tracked precisely
                nk = u.fresh_int("klen")
                st.assume(nk >= 0)
                st.heap["$klen"] = z3.Store(self.heap_array(st, "$klen"), r, nk)
                st.heap["$kat"] = z3.Store(self.heap_array(st, "$kat"), r, u.fresh("kat", u.ElemsSort))
                return st, result
            if name == "update":
                if len(args) != 1 or kwargs or args[0].cls != "dict" or args[0].z is None:
                    raise Undecided("dict.update form")
                if args[0].kind != "ref":
                    if not self.in_spec:
                        self.oblige(st, "deref", self.auto_label(node, "deref"), u.is_R(args[0].z),
                                    note="argument of dict.update is a dictionary (not None)")
                    st.assume(u.is_R(args[0].z))
                ro = u.r(args[0].z)
                has, val = self.heap_array(st, "$has")[r], self.heap_array(st, "$val")[r]
                ohas, oval = self.heap_array(st, "$has")[ro], self.heap_array(st, "$val")[ro]
                nh = u.fresh("upd_has", has.sort())
                nv = u.fresh("upd_val", val.sort())
                x = u.fresh_val("x")
                st.assume(z3.ForAll([x], nh[x] == z3.Or(has[x], ohas[x]), patterns=[nh[x]]))
                st.assume(z3.ForAll([x], nv[x] == z3.If(ohas[x], oval[x], val[x]), patterns=[nv[x]]))
                st.heap["$has"] = z3.Store(st.heap["$has"], r, nh)
                st.heap["$val"] = z3.Store(st.heap["$val"], r, nv)
                for key, nm in (("$dlen", "dlen"), ("$klen", "klen")):
                    nn = u.fresh_int(nm)
                    st.assume(nn >= 0)
                    st.heap[key] = z3.Store(self.heap_array(st, key), r, nn)
                st.heap["$kat"] = z3.Store(self.heap_array(st, "$kat"), r, u.fresh("kat", u.ElemsSort))
                return st, self.mk_none()
            if name == "copy":
                # a new dictionary with the same keys and values (key order not tracked)
                d = self.new_dict(st, recv.elem)
                rn = self.as_ref(d)
                for key in ("$has", "$val", "$dlen"):
                    arr = self.heap_array(st, key)
                    st.heap[key] = z3.Store(arr, rn, arr[r])
                nk = u.fresh_int("klen")
                st.assume(nk >= 0)
                st.heap["$klen"] = z3.Store(self.heap_array(st, "$klen"), rn, nk)
                st.heap["$kat"] = z3.Store(self.heap_array(st, "$kat"), rn, u.fresh("kat", u.ElemsSort))
                return st, SV(d.z, "ref", cls="dict", elem=recv.elem)
            raise Undecided("dict.%s" % name)
        if cls == "set":
            if name == "add":
                item = self.box(st, args[0])
                hs = self.heap_array(st, "$has")[r]
                had = hs[item.z]
                n = self.heap_array(st, "$dlen")[r]
                st.heap["$has"] = z3.Store(st.heap["$has"], r, z3.Store(hs, item.z, z3.BoolVal(True)))
                st.heap["$dlen"] = z3.Store(st.heap["$dlen"], r, z3.If(had, n, n + 1))
                return st, self.mk_none()
            if name == "update":
                other = args[0]
                if other.kind == "ref" and other.cls == "set":
                    ro = self.as_ref(other)
                    hs = self.heap_array(st, "$has")[r]
                    ho = self.heap_array(st, "$has")[ro]
                    new = u.fresh("union", u.HasInner)
                    x = u.fresh_val("x")
                    st.assume(z3.ForAll([x], new[x] == z3.Or(hs[x], ho[x])))
                    n, no = self.heap_array(st, "$dlen")[r], self.heap_array(st, "$dlen")[ro]
                    nn = u.fresh_int("setlen")
                    st.assume(z3.And(nn >= n, nn >= no, nn <= n + no))
                    st.heap["$has"] = z3.Store(st.heap["$has"], r, new)
                    st.heap["$dlen"] = z3.Store(st.heap["$dlen"], r, nn)
                    return st, self.mk_none()
                raise Undecided("set.update(non-set)")
            raise Undecided("set.%s" % name)
        raise Undecided("method %s of %s" % (name, cls))

    def iterable_to_seq(self, st, acc, v, node):
        if v.kind == "pytuple":
            return self.as_seq(st, v)
        if v.kind is None and v.z is not None and v.cls is not None:
            # optional object: iterating it requires it to be there
            if not self.in_spec:
                self.oblige(st, "deref", self.auto_label(node, "deref"), self.u.is_R(v.z),
                            note="iterated value is an object (not None)")
            st.assume(self.u.is_R(v.z))
            v = SV(v.z, "ref", cls=v.cls, elem=v.elem)
        if v.kind == "ref" and v.cls in ("list", "tuple", "iterator"):
            return SV(v.z, "ref", cls="list" if v.cls == "iterator" else v.cls, elem=v.elem)
        if v.kind == "ref" and v.cls is not None and v.cls not in CONTAINER_CLASSES:
            owner, fn = self.src.lookup_method(v.cls, "__iter__")
            if owner:
                st2, it = self.call_method(st, acc, v, "__iter__", [], {}, node)
                if st2 is not st:
                    st.pc[:] = st2.pc
                    st.heap, st.ghost, st.alloc = st2.heap, st2.ghost, st2.alloc
                return self.iterable_to_seq(st, acc, it, node)
        if v.kind == "dictview":
            what, d = v.py
            u = self.u
            r = self.as_ref(d)
            keys = SV(d.z, "ref", cls="dictkeys", elem=None)
            if what == "keys":
                n = self.seq_len(st, keys)
                st.assume(n >= 0)
                res = self.new_symbolic_seq(st, "list", None, length=n)
                k = u.fresh_int("k")
                ke = self.seq_elems(st, keys)
                re_ = self.seq_elems(st, res)
                st.assume(z3.ForAll([k], z3.Implies(z3.And(0 <= k, k < n), re_(k) == ke(k))))
                return res
            n = self.seq_len(st, keys)
            st.assume(n >= 0)
            res = self.new_symbolic_seq(st, "list", None, length=n)
            k = u.fresh_int("k")
            ke = self.seq_elems(st, keys)
            re_ = self.seq_elems(st, res)
            vals = self.heap_array(st, "$val")[r]
            if what == "values":
                st.assume(z3.ForAll([k], z3.Implies(z3.And(0 <= k, k < n), re_(k) == vals[ke(k)])))
                return res
            # items(): a block of n new (key, value) tuples in key order
            base = u.fresh_int("itm")
            st.assume(base == st.alloc)
            st.alloc = base + n
            rel = u.fresh("items", u.ElemsSort)
            st.heap["$at"] = z3.Store(self.heap_array(st, "$at"), self.as_ref(res), rel)
            tl, ti = self.tuple_len_f(), self.tuple_item_f()
            rng = z3.And(0 <= k, k < n)
            st.assume(z3.ForAll([k], z3.Implies(rng, z3.And(
                rel[k] == u.R(base + k), u.typeof(base + k) == u.class_id("tuple"), tl(base + k) == 2,
                ti(base + k, z3.IntVal(0)) == ke(k), ti(base + k, z3.IntVal(1)) == vals[ke(k)],
                self.heap_array(st, "$has")[r][ke(k)])), patterns=[rel[k]]))
            return SV(res.z, "ref", cls="list", elem="tuple:any")
        if v.kind == "ref" and v.cls == "set":
            # arbitrary but fixed enumeration order of the set's members
            u = self.u
            r = self.as_ref(v)
            has = self.heap_array(st, "$has")[r]
            res = self.new_symbolic_seq(st, "list", v.elem)
            n = self.seq_len(st, res)
            el = self.seq_elems(st, res)
            k = u.fresh_int("k")
            j = u.fresh_int("j")
            x = u.fresh_val("x")
            st.assume(z3.ForAll([k], z3.Implies(z3.And(0 <= k, k < n), has[el(k)])))
            pos = u.fresh("setpos", z3.ArraySort(u.Val, u.Int))
            st.assume(z3.ForAll([x], z3.Implies(has[x], z3.And(0 <= pos[x], pos[x] < n, el(pos[x]) == x))))
            st.assume(z3.ForAll([k], z3.Implies(z3.And(0 <= k, k < n), pos[el(k)] == k)))
            st.assume((n == 0) == (self.heap_array(st, "$dlen")[r] == 0))
            return res
        raise Undecided("not iterable as a sequence: %r" % (v,))

    # ------------------------------------------------------------------
    # string methods (opaque strings; finite case splits folded)
    def str_method(self, st, acc, recv, name, args, kwargs, node):
        u = self.u
        if name in PURE_STR_METHODS and not args and recv.cases is not None:
            f = PURE_STR_METHODS[name]
            return st, self.str_from_cases([(c if c is not None else z3.BoolVal(True), f(t))
                                            for c, t in recv.cases]) if len(recv.cases) > 1 \
                else self.mk_str(f(recv.cases[0][1]))
        if name == "format" and recv.cases is not None and len(recv.cases) == 1 and not kwargs \
                and all(a.kind == "str" and a.cases is not None for a in args):
            fmt = recv.cases[0][1]
            combos = [([], [])]
            for a in args:
                new = []
                for conds, texts in combos:
                    for c, t in a.cases:
                        new.append((conds + ([c] if c is not None else []), texts + [t]))
                combos = new
            if len(combos) <= 12:
                cases = []
                for conds, texts in combos:
                    try:
                        cases.append((z3.And(conds) if conds else z3.BoolVal(True), fmt.format(*texts)))
                    except Exception:
                        raise Undecided("format folding")
                if len(cases) == 1:
                    return st, self.mk_str(cases[0][1])
                return st, self.str_from_cases(cases)
        if name in ("startswith", "endswith"):
            a = args[0]
            if recv.cases is not None and a.kind == "str" and a.cases is not None:
                fn = (lambda s, t: s.startswith(t)) if name == "startswith" else (lambda s, t: s.endswith(t))
                return st, self.mk_bool(self._fold_cases(recv, lambda s: self._fold_cases(
                    a, lambda t: z3.BoolVal(fn(s, t)), z3.BoolSort()), z3.BoolSort()))
            if a.kind == "pytuple":
                f = u.uf("str_" + name, u.Str, u.Str, u.Bool)
                return st, self.mk_bool(z3.Or([f(self.as_str(recv), self.as_str(x)) for x in a.py]))
            f = u.uf("str_" + name, u.Str, u.Str, u.Bool)
            return st, self.mk_bool(f(self.as_str(recv), self.as_str(a)))
        if name in ("strip", "rstrip", "lstrip", "upper", "lower", "title", "capitalize",
                    "expandtabs", "swapcase"):
            boxed = [self.box(st, a) for a in args]
            if boxed:
                f = u.uf("str_%s1" % name, u.Str, u.Val, u.Str)
                return st, SV(u.S(f(self.as_str(recv), boxed[0].z)), "str")
            f = u.uf("str_" + name, u.Str, u.Str)
            return st, SV(u.S(f(self.as_str(recv))), "str")
        if name in ("isdigit", "isspace", "isalpha", "isupper", "islower"):
            f = u.uf("str_" + name, u.Str, u.Bool)
            return st, self.mk_bool(f(self.as_str(recv)))
        if name == "replace":
            a, b = args[0], args[1]
            f = u.uf("str_replace", u.Str, u.Str, u.Str, u.Str)
            return st, SV(u.S(f(self.as_str(recv), self.as_str(a), self.as_str(b))), "str")
        if name == "split" and not args and not kwargs:
            # whitespace split as a pure function of the text: a fresh list of str_nwords(s) words str_word(s, k)
            s_ = self.as_str(recv)
            n = u.uf("str_nwords", u.Str, u.Int)(s_)
            res = self.new_symbolic_seq(st, "list", "str", length=n)
            rel = u.fresh("words", u.ElemsSort)
            st.heap["$at"] = z3.Store(self.heap_array(st, "$at"), self.as_ref(res), rel)
            k = u.fresh_int("k")
            wf = u.uf("str_word", u.Str, u.Int, u.Str)
            st.assume(z3.ForAll([k], z3.Implies(z3.And(0 <= k, k < n), rel[k] == u.S(wf(s_, k))),
                                patterns=[rel[k]]))
            self.assumptions_used.add("A-lib:str.split")
            return st, res
        if name in ("split", "rsplit", "splitlines", "partition", "rpartition"):
            res = self.new_symbolic_seq(st, "list", "str")
            self.assumptions_used.add("A-lib:str.%s" % name)
            return st, res
        if name == "join":
            return st, SV(u.S(u.fresh("joined", u.Str)), "str")
        if name == "format":
            return st, SV(u.S(u.fresh("formatted", u.Str)), "str")
        if name in ("find", "rfind", "index", "count"):
            n = u.fresh_int("pos")
            return st, self.mk_int(n)
        if name in ("encode", "decode"):
            return st, SV(u.fresh_val("bytes"))
        raise Undecided("str.%s" % name)


def short_fid(fid):
    return fid.split(":", 1)[1] if ":" in fid else fid
