# -*- coding: utf-8 -*-
"""pyvc.verify -- prove one function against its sidecar contract; discharge
obligations with z3 (deterministic rlimit) and cvc5 as second back end."""
import ast
import os
import subprocess
import tempfile
import time
import traceback
import z3

from . import contracts as C
from .engine import Engine, SV, State, Acc, Undecided, POISON, Obligation
from .exprs import ExprMixin
from .calls import CallMixin
from .stmts import StmtMixin, BUILTIN_EXCEPTIONS

RLIMIT = int(os.environ.get("PYVC_RLIMIT", "40000000"))
TIMEOUT_MS = int(os.environ.get("PYVC_TIMEOUT_MS", "120000"))
CVC5 = os.environ.get("PYVC_CVC5", "/usr/bin/cvc5")


class PyVC(ExprMixin, CallMixin, StmtMixin, Engine):
    C = C

    def __init__(self, sources, registry=None, shapes=None):
        Engine.__init__(self, sources, registry, shapes)
        self.exc_classes = list(BUILTIN_EXCEPTIONS)
        for cname in sorted(self.src.classes):
            if cname not in self.exc_classes and self.src.exception_is_subclass(cname, "BaseException"):
                self.exc_classes.append(cname)
        self.src.ext_exc = dict(C.EXT_EXC)
        for cname in sorted(C.EXT_EXC):
            if cname not in self.exc_classes:
                self.exc_classes.append(cname)
        for c in self.exc_classes:
            self.u.class_id(c)
        self.inline_stack = []
        self.handling = []
        self.with_stack = []
        self.loop_ordinals = {}
        self.loop_local_containers = []

    def ghost_sort(self, sort):
        u = self.u
        return {"int": u.Int, "val": u.Val, "bool": u.Bool, "array": u.ElemsSort,
                "map": u.ValInner}[sort]

    # exception-aware class test
    def class_test(self, zref, cname):
        if cname in self.exc_classes:
            subs = [c for c in self.exc_classes if self.src.exception_is_subclass(c, cname)]
            return z3.Or([self.u.typeof(zref) == self.u.class_id(s) for s in subs])
        return Engine.class_test(self, zref, cname)

    def isinstance_formula(self, st, v, spec):
        if spec.kind == "class" and spec.py in self.exc_classes and v.kind == "ref" and v.cls in self.exc_classes:
            return z3.BoolVal(self.src.exception_is_subclass(v.cls, spec.py))
        if spec.kind == "callable" and spec.py[0] == "builtin" and spec.py[1] in self.exc_classes:
            cname = spec.py[1]
            if v.kind == "ref" and v.cls in self.exc_classes:
                return z3.BoolVal(self.src.exception_is_subclass(v.cls, cname))
            return z3.And(self.u.is_R(v.z), self.class_test(self.u.r(v.z), cname))
        return CallMixin.isinstance_formula(self, st, v, spec)

    def global_name(self, name, st):
        if name in self.exc_classes and name not in self.src.classes:
            return SV(None, "callable", py=("builtin", name))
        return ExprMixin.global_name(self, name, st)

    def call_value(self, st, acc, f, args, kwargs, node):
        if f.kind == "callable" and f.py[0] == "builtin" and f.py[1] in self.exc_classes:
            exc = self.alloc(st, f.py[1])
            if args:
                self.write_field(st, exc, "args0", self.box(st, args[0]))
            return st, exc
        return CallMixin.call_value(self, st, acc, f, args, kwargs, node)

    def construct(self, st, acc, cname, args, kwargs, node):
        if cname in self.exc_classes and ("new:%s" % cname) not in self.reg:
            exc = self.alloc(st, cname)
            if args:
                self.write_field(st, exc, "args0", self.box(st, args[0]))
            for k, v in kwargs.items():
                if k != "**":
                    self.write_field(st, exc, k, self.box(st, v))
            return st, exc
        return CallMixin.construct(self, st, acc, cname, args, kwargs, node)

    # ------------------------------------------------------------------
    def initial_state(self, fid, fn, c):
        u = self.u
        st = State({}, {}, {}, None, [])
        alloc0 = z3.Int("alloc0")
        st.alloc = alloc0
        st.assume(alloc0 > 0)
        for g, sort in C.GHOSTS.items():
            st.ghost[g] = z3.Const("G0_%s" % g, self.ghost_sort(sort))
        a = fn.args
        names = [x.arg for x in a.posonlyargs + a.args + a.kwonlyargs]
        qual = fid.split(":")[1]
        owner = qual.split(".")[0] if "." in qual else None
        ci = self.src.classes.get(owner) if owner else None
        mname = qual.split(".")[1] if "." in qual else qual
        for k, name in enumerate(names):
            t = c.params.get(name)
            if t is None and k == 0 and name == "self" and owner:
                t = "ref:" + owner
            if t is None and k == 0 and name == "cls" and owner:
                st.env[name] = SV(None, "class", py=owner)
                continue
            z = z3.Const("arg_%s" % name, u.Val)
            sv = self.typed(z, t)
            st.env[name] = sv
            if t:
                st.assume(self.type_pred(z, t))
            st.assume(z3.Implies(u.is_R(z), z3.And(u.r(z) > 0, u.r(z) < alloc0)))
            if k == 0 and name == "self" and c.self_classes:
                st.assume(z3.Or([u.typeof(u.r(z)) == u.class_id(x) for x in c.self_classes]))
        if a.vararg:
            t = c.params.get(a.vararg.arg, "tuple:any")
            z = z3.Const("arg_%s" % a.vararg.arg, u.Val)
            st.env[a.vararg.arg] = self.typed(z, t)
            st.assume(self.type_pred(z, t))
            st.assume(u.r(z) < alloc0)
            st.assume(self.seq_len(st, st.env[a.vararg.arg]) >= 0)
        if a.kwarg:
            z = z3.Const("arg_%s" % a.kwarg.arg, u.Val)
            st.env[a.kwarg.arg] = self.typed(z, "dict")
            st.assume(self.type_pred(z, "dict"))
            st.assume(u.r(z) < alloc0)
        return st

    def verify_function(self, fid):
        """-> dict(status, obligations=[Obligation], error, stats)"""
        c = self.reg.get(fid)
        fn = self.src.function(fid)
        self.obligations = []
        self._auto_counter = {}
        self.cur_fid = fid
        self.cur_fid_top = fid
        self.cur_contract = c
        self.cur_contract_top = c
        self.depth = 0
        info = {"fid": fid, "status": "ok", "error": None, "sha": self.src.sha(fid),
                "lines": None, "covers": []}
        if fn is None:
            info["status"] = "undecided"
            info["error"] = "function not found in the source tree"
            return info
        info["lines"] = (fn.end_lineno - fn.lineno + 1)
        try:
            self.entry_state = None
            self.entry_env = None
            st = self.initial_state(fid, fn, c)
            env0 = dict(st.env)
            self.entry_env = env0
            for label, text in c.requires:
                f, facts = self.spec_formula(text, st, env0)
                for x in facts:
                    st.assume(x)
                st.assume(f)
            for label, text in c.assume:
                f, facts = self.spec_formula(text, st, env0)
                for x in facts:
                    st.assume(x)
                st.assume(f)
                self.assumptions_used.add("assume@%s: %s" % (fid, text))
            self.entry_state = st.copy()
            self.entry_env = env0
            info["pre_pc"] = list(st.pc)
            acc = Acc()
            st_run = st.copy()
            is_generator = any(isinstance(n, (ast.Yield, ast.YieldFrom)) for n in _own_nodes(fn))
            if is_generator:
                st_run.env["$yields"] = self.new_list(st_run, [], cls="list")
                self.assumptions_used.add("A-generator: a generator is modelled as the list of the values it yields")
            end = self.exec_block(fn.body, st_run, acc)
            outs = list(acc.returns)
            if end is not None:
                outs.append((end, self.mk_none()))
            if is_generator:
                outs = [(s_, s_.env["$yields"]) for s_, _ in outs]
            if acc.breaks or acc.continues:
                raise Undecided("break/continue outside loop")
            self.cur_fid = fid
            self.cur_contract = c
            # normal exits
            if outs:
                if len(outs) == 1:
                    rs, rv = outs[0]
                else:
                    rs, tails = self.merge_with_tails([s for s, _ in outs])
                    rv = self.merge_values([self.box(s, v) for s, v in outs], tails)
                    if rv is POISON:
                        raise Undecided("return values cannot be merged")
                rv = self.box(rs, rv)
                if c.result:
                    self.oblige(rs, "post", "result-type", self.type_pred(rv.z, c.result),
                                note="result has type %s" % c.result)
                    rv = self.typed(rv.z, c.result) if rv.kind is None else rv
                for label, text in c.ensures:
                    goal, facts = self.spec_formula(text, rs, env0, old=(self.entry_state, env0),
                                                    extra={"result": rv})
                    s2 = rs.copy()
                    for x in facts:
                        s2.assume(x)
                    self.oblige(s2, "post", label, goal, note=text)
                # `raises X when W` is an "iff": callers assume not W after a normal return, so a normal return
                # under W must be impossible
                for r in c.raises:
                    if r.when is None:
                        continue
                    w, facts = self.spec_formula(r.when, self.entry_state, env0)
                    s2 = rs.copy()
                    for x in facts:
                        s2.assume(x)
                    self.oblige(s2, "post", "must-raise.%s" % r.label, z3.Not(w),
                                note="no normal return when `%s` (declared to raise %s)" % (r.when, r.exc))
                self.check_frame(self.entry_state, rs, c.modifies, env0, self.entry_state,
                                 self.entry_state.alloc, "frame")
                info["covers"].append(("return-reachable", list(rs.pc)))
            elif c.ensures:
                info["covers"].append(("return-reachable", [z3.BoolVal(False)]))
            # exceptional exits
            for xs, exc in acc.raises:
                allowed = []
                for r in c.raises:
                    cls_ok = self.class_test(self.as_ref(exc), r.exc)
                    if r.when is not None:
                        w, facts = self.spec_formula(r.when, self.entry_state, env0)
                        for x in facts:
                            xs.assume(x)
                        allowed.append(z3.And(cls_ok, w))
                    else:
                        allowed.append(cls_ok)
                for a in (c.allow_raises or []):
                    allowed.append(self.class_test(self.as_ref(exc), a))
                self.oblige(xs, "raises-only", "declared", z3.Or(allowed) if allowed else z3.BoolVal(False),
                            note="only declared exceptions escape")
                # callers havoc only the declared `modifies` on an exceptional exit too
                self.check_frame(self.entry_state, xs, c.modifies, env0, self.entry_state,
                                 self.entry_state.alloc, "frame-on-raise")
                for r in c.raises:
                    if not r.ensures:
                        continue
                    s2 = xs.copy()
                    s2.assume(self.class_test(self.as_ref(exc), r.exc))
                    for label, text in r.ensures:
                        goal, facts = self.spec_formula(text, s2, env0, old=(self.entry_state, env0),
                                                        extra={"exc": exc})
                        s3 = s2.copy()
                        for x in facts:
                            s3.assume(x)
                        self.oblige(s3, "raises", "%s.%s" % (r.label, label), goal, note=text)
            # every declared raise must be reachable (cover)
            for r in c.raises:
                pcs = [list(xs.pc) + [self.class_test(self.as_ref(exc), r.exc)] for xs, exc in acc.raises]
                info["covers"].append(("raise-reachable:%s" % r.label, pcs))
        except Undecided as e:
            info["status"] = "undecided"
            info["error"] = "unsupported: %s" % e
        except RecursionError as e:
            info["status"] = "undecided"
            info["error"] = "recursion limit"
        info["obligations"] = self.obligations
        info["paths"] = self.dead_path_candidates(fid)
        return info

    def dead_path_candidates(self, fid):
        """Vacuity guard: every named path (a branch of a merge) of this function together with the largest
        hypothesis list that mentions it.  check_path() asks the solver whether the path is *provably*
        unreachable; such paths make every obligation on them vacuous and are reported."""
        best = {}
        seen_pc = set()
        # a path is judged in the widest context that mentions it: the function's normal end, else an exceptional
        # exit, else the end of the loop iteration it belongs to, else any other obligation
        rank = {"post": 4, "raises": 3, "inv-preserve": 2}
        for ob in self.obligations:
            if ob.kind == "raises-only":
                continue        # an exit that cannot happen is discharged by an inconsistent path: not vacuity
            key = id(ob.pc)
            if key in seen_pc:
                continue
            seen_pc.add(key)
            names = _path_names(ob.pc)
            score = (rank.get(ob.kind, 1), len(ob.pc))
            for nm, term in names.items():
                if nm not in self.path_meta:
                    continue
                if nm not in best or score > best[nm][2]:
                    best[nm] = (term, ob.pc, score, ob.oid)
        out = []
        for nm in sorted(best, key=lambda s: int(s.split("!")[1])):
            mfid, line, br, of = self.path_meta[nm]
            out.append({"name": nm, "function": mfid, "line": line, "branch": br, "term": best[nm][0], "pc": best[nm][1],
                        "context": best[nm][3]})
        return out

    def verify_lemma(self, fid):
        """A contract without code: parameters are universally quantified, the
        `ensures` clauses are proved from `requires` (used for coherence lemmas)."""
        c = self.reg[fid]
        u = self.u
        self.obligations = []
        self._auto_counter = {}
        self.cur_fid = self.cur_fid_top = fid
        self.cur_contract = c
        info = {"fid": fid, "status": "ok", "error": None, "sha": None, "lines": 0, "covers": []}
        try:
            st = State({}, {}, {}, z3.Int("alloc0"), [])
            st.assume(st.alloc > 0)
            for g, sort in C.GHOSTS.items():
                st.ghost[g] = z3.Const("G0_%s" % g, self.ghost_sort(sort))
            for name, t in c.params.items():
                z = z3.Const("arg_%s" % name, u.Val)
                st.env[name] = self.typed(z, t)
                st.assume(self.type_pred(z, t))
                st.assume(z3.Implies(u.is_R(z), z3.And(u.r(z) > 0, u.r(z) < st.alloc)))
            env0 = dict(st.env)
            for label, text in c.requires:
                f, facts = self.spec_formula(text, st, env0)
                for x in facts:
                    st.assume(x)
                st.assume(f)
            self.entry_state = st.copy()
            self.entry_env = env0
            for label, text in c.ensures:
                goal, facts = self.spec_formula(text, st, env0, old=(self.entry_state, env0))
                s2 = st.copy()
                for x in facts:
                    s2.assume(x)
                self.oblige(s2, "lemma", label, goal, note=text)
            info["covers"].append(("premises-satisfiable", list(st.pc)))
        except Undecided as e:
            info["status"] = "undecided"
            info["error"] = "unsupported: %s" % e
        info["obligations"] = self.obligations
        return info

    # ------------------------------------------------------------------
    def axioms(self):
        return self.u.literal_axioms() + list(self.global_axioms)


def _own_nodes(fn):
    """AST nodes of a function body without the bodies of nested functions / lambdas / classes."""
    stack = list(fn.body)
    while stack:
        n = stack.pop()
        yield n
        for ch in ast.iter_child_nodes(n):
            if isinstance(ch, (ast.FunctionDef, ast.AsyncFunctionDef, ast.Lambda, ast.ClassDef)):
                continue
            stack.append(ch)


# ---------------------------------------------------------------------------
_PUSH_CACHE = {}


def push_select_ite(e):
    """Logically equivalent rewriting  select(ite(c, A, B), i) -> ite(c, select(A, i), select(B, i))  (recursively).
    Heap arrays merged at control-flow joins are ite-arrays; quantified facts about one branch's array have
    triggers like A[r], which never match a read of the merged array unless the read is pushed inside."""
    key = e.get_id()
    hit = _PUSH_CACHE.get(key)
    if hit is not None and hit[0].eq(e):
        return hit[1]
    if z3.is_quantifier(e):
        body = push_select_ite(e.body())
        if body.eq(e.body()):
            res = e
        else:
            n = e.num_vars()
            vs = [z3.Const(e.var_name(i), e.var_sort(i)) for i in range(n)]
            # rebuild with the same bound variables (de Bruijn: innermost is the last)
            inst = z3.substitute_vars(body, *reversed(vs))
            pats = []
            for i in range(e.num_patterns()):
                p = e.pattern(i)
                pats.append(z3.MultiPattern(*[z3.substitute_vars(p.arg(j), *reversed(vs)) for j in range(p.num_args())])
                            if p.num_args() > 1 else z3.substitute_vars(p.arg(0), *reversed(vs)))
            res = (z3.ForAll if e.is_forall() else z3.Exists)(vs, inst, patterns=pats) if pats else \
                (z3.ForAll if e.is_forall() else z3.Exists)(vs, inst)
    elif z3.is_app(e) and e.num_args() > 0:
        ch = [push_select_ite(c) for c in e.children()]
        if e.decl().kind() == z3.Z3_OP_SELECT and z3.is_app(ch[0]) and ch[0].decl().kind() == z3.Z3_OP_ITE:
            c, a, b = ch[0].children()
            res = z3.If(c, push_select_ite(z3.Select(a, *ch[1:])), push_select_ite(z3.Select(b, *ch[1:])))
        elif any(not x.eq(y) for x, y in zip(ch, e.children())):
            res = e.decl()(*ch)
        else:
            res = e
    else:
        res = e
    _PUSH_CACHE[key] = (e, res)
    return res


def check_obligation(vc, ob, rlimit=RLIMIT, use_cvc5=True, timeout_ms=None):
    """Discharge one obligation. Sets ob.status/backend/time/model."""
    t0 = time.time()
    if not getattr(ob, "_pushed", False):
        try:
            ob.goal = push_select_ite(ob.goal)
            ob.pc = [push_select_ite(f) for f in ob.pc]
        except Exception:        # the rewriting is an optimisation only
            pass
        ob._pushed = True
    r = z3.unknown
    # pass 0: quantified hypotheses sliced to the symbol families of the goal (dropping hypotheses is sound);
    # pass 1: all hypotheses, E-matching only; pass 2: with MBQI
    sliced = slice_hypotheses(ob)
    plans = []
    if sliced is not None:
        plans.append(("slice", sliced, False, max(rlimit // 4, 1000000)))
    plans.append(("full", list(ob.pc), False, max(rlimit // 4, 1000000)))
    plans.append(("full", list(ob.pc), True, rlimit))
    for tag, facts, mbqi, rl in plans:
        s = z3.Solver()
        s.set("rlimit", rl)
        s.set("timeout", timeout_ms or TIMEOUT_MS)
        s.set("mbqi", mbqi)
        for ax in vc.axioms():
            s.add(ax)
        for f in facts:
            s.add(f)
        s.add(z3.Not(ob.goal))
        r = s.check()
        if r == z3.unsat or (r == z3.sat and mbqi and tag == "full"):
            break
    ob.backend = "z3"
    if r == z3.unsat:
        ob.status = "discharged"
    elif r == z3.sat:
        ob.status = "refuted"
        try:
            ob.model = model_text(s.model())
            ob.model_obj = s.model()
        except Exception:
            ob.model = "<model unavailable>"
    else:
        ob.status = "unknown"
        ob.reason = s.reason_unknown()
        if use_cvc5:
            res = run_cvc5(s.to_smt2())
            if res == "unsat":
                ob.status = "discharged"
                ob.backend = "cvc5"
            elif res == "sat":
                # cvc5 sat on quantified problems is rare; keep as unknown unless z3 agrees
                ob.status = "unknown"
                ob.reason = "z3 unknown (%s), cvc5 sat" % ob.reason
    ob.time = time.time() - t0
    return ob


_FAMILY_RE = None


def _families(e, acc=None, seen=None):
    """Names of uninterpreted symbols of a term, normalised to their heap-field / ghost family."""
    import re
    global _FAMILY_RE
    if _FAMILY_RE is None:
        _FAMILY_RE = re.compile(r"^(?:H0_|H_|L_|M_|D|Dg_|Lg_|g_|G0_|M_g_|hv_)?(.*?)(?:!\d+)?$")
    acc = set() if acc is None else acc
    seen = set() if seen is None else seen
    stack = [e]
    while stack:
        t = stack.pop()
        i = t.get_id()
        if i in seen:
            continue
        seen.add(i)
        if z3.is_quantifier(t):
            stack.append(t.body())
            continue
        if z3.is_app(t):
            d = t.decl()
            if d.kind() == z3.Z3_OP_UNINTERPRETED:
                m = _FAMILY_RE.match(d.name())
                acc.add(m.group(1) if m else d.name())
            stack.extend(t.children())
    return acc


def slice_hypotheses(ob):
    """Keep every quantifier-free hypothesis, and only those quantified ones that talk about a
    symbol family the goal (transitively, through quantifier-free facts) depends on."""
    from .engine import _has_quantifier
    qs = [f for f in ob.pc if _has_quantifier(f)]
    if len(qs) < 6:
        return None
    goal_fams = _families(ob.goal)
    goal_fams -= {"alloc", "alloc0", "path", "typeof"}
    keep = [f for f in ob.pc if not _has_quantifier(f)]
    kept_q = 0
    for f in qs:
        fams = _families(f) - {"alloc", "alloc0", "path", "typeof", "k", "r", "j", "m", "i", "x"}
        if fams & goal_fams:
            keep.append(f)
            kept_q += 1
    if kept_q == len(qs):
        return None
    return keep


def run_cvc5(smt2, timeout_s=60):
    text = "(set-logic ALL)\n" + smt2
    fd, path = tempfile.mkstemp(suffix=".smt2", dir=os.environ.get("PYVC_TMP", None))
    try:
        with os.fdopen(fd, "w") as f:
            f.write(text)
        try:
            out = subprocess.run([CVC5, "--tlimit=%d" % (timeout_s * 1000), path],
                                 capture_output=True, text=True, timeout=timeout_s + 10)
        except subprocess.TimeoutExpired:
            return "unknown"
        first = (out.stdout.strip().splitlines() or ["unknown"])[0].strip()
        return first if first in ("sat", "unsat") else "unknown"
    finally:
        try:
            os.unlink(path)
        except OSError:
            pass


_FACT_NAMES = {}


def _path_names(pc):
    """path names occurring in a hypothesis list (per-fact results are cached: lists share most facts)"""
    names = {}
    for f in pc:
        key = f.get_id()
        hit = _FACT_NAMES.get(key)
        if hit is None or not hit[0].eq(f):
            hit = (f, _path_names_of([f]))
            _FACT_NAMES[key] = hit
        names.update(hit[1])
    return names


def _path_names_of(pc):
    names = {}
    stack = list(pc)
    seen = set()
    while stack:
        t = stack.pop()
        i = t.get_id()
        if i in seen:
            continue
        seen.add(i)
        if z3.is_quantifier(t):
            stack.append(t.body())
            continue
        if z3.is_const(t) and t.decl().kind() == z3.Z3_OP_UNINTERPRETED and t.decl().name().startswith("path!"):
            names[t.decl().name()] = t
        stack.extend(t.children())
    return names


def check_paths(vc, paths, rlimit=3000000):
    """-> {name: 'dead' | 'live' | 'unknown'}; 'dead' = the hypotheses prove the path unreachable."""
    out = {}
    groups = {}
    for p in paths:
        groups.setdefault(id(p["pc"]), []).append(p)
    for _k, ps in groups.items():
        s = z3.Solver()
        s.set("mbqi", False)
        s.set("timeout", 20000)
        for ax in vc.axioms():
            s.add(ax)
        for f in ps[0]["pc"]:
            s.add(f)
        for p in ps:
            s.push()
            s.set("rlimit", rlimit)
            s.add(p["term"])
            r = s.check()
            s.pop()
            out[p["name"]] = "dead" if r == z3.unsat else ("live" if r == z3.sat else "unknown")
    return out


def check_cover(vc, pcs, rlimit=RLIMIT):
    """Vacuity guard: is the path condition satisfiable?  Checked on the quantifier-free part of the
    hypotheses (an unsat answer there proves vacuity; sat there is the reachability evidence)."""
    from .engine import _has_quantifier
    if pcs and isinstance(pcs[0], list):
        alts = pcs
    else:
        alts = [pcs]
    if not alts:
        return "unreachable"
    worst = "unreachable"
    for pc in alts:
        s = z3.Solver()
        s.set("timeout", 5000)
        for ax in vc.u.literal_axioms():
            s.add(ax)
        for f in pc:
            if not _has_quantifier(f):
                s.add(f)
        r = s.check()
        if r == z3.sat:
            return "reachable"
        if r == z3.unknown:
            worst = "unknown"
    return worst


def model_text(m, limit=60):
    items = []
    for d in m.decls():
        name = d.name()
        if not name.startswith(("arg_", "loop_", "G0_")):
            continue
        try:
            items.append("%s = %s" % (name, m[d]))
        except Exception:
            pass
    items.sort()
    return "\n".join(items[:limit])
