# -*- coding: utf-8 -*-
"""
pyvc.universe -- the z3 encoding of Python values and of the heap.

One universal value sort ``Val`` (an algebraic datatype) carries every Python
value the verified subset manipulates:

    none | B(bool) | I(int) | S(Str) | E(int) | R(int) | X(int)

* ``I``: Python ints are unbounded, so mathematical integers are exact.
* ``S``: strings.  In *opaque* mode ``Str`` is an uninterpreted sort; string
  literals are pairwise-distinct constants with known length; every string
  method is an uninterpreted function, so whatever is proved holds for any
  behaviour of those methods.  Finite case splits over literals are folded
  concretely by the engine (see SV.cases).
* ``E``: enum members; the payload is ``class_index*1000 + ordinal``.
* ``R``: object references (instances, lists, tuples, dicts, sets, exceptions).
  ``typeof : Int -> Int`` gives the class id of a reference.
* ``X``: anything else (floats, opaque library objects).

The heap is a set of z3 arrays, one per field name (``Array(Int, Val)``,
Burstall style) plus four built-in ones for containers:

    $len : Array(Int, Int)               length of list/tuple objects
    $at  : Array(Int, Array(Int, Val))   their elements
    $has : Array(Int, Array(Val, Bool))  key membership of dict/set objects
    $val : Array(Int, Array(Val, Val))   dict values
    $keys: Array(Int, Val)               (ref of) the key list of a dict, in insertion order
"""
import z3


class Universe(object):
    def __init__(self):
        self.Str = z3.DeclareSort("Str")
        Val = z3.Datatype("Val")
        Val.declare("none")
        Val.declare("B", ("b", z3.BoolSort()))
        Val.declare("I", ("i", z3.IntSort()))
        Val.declare("S", ("s", self.Str))
        Val.declare("E", ("e", z3.IntSort()))
        Val.declare("R", ("r", z3.IntSort()))
        Val.declare("X", ("x", z3.IntSort()))
        self.Val = Val.create()
        V = self.Val
        self.none = V.none
        self.B, self.I, self.S, self.E, self.R, self.X = V.B, V.I, V.S, V.E, V.R, V.X
        self.b, self.i, self.s, self.e, self.r, self.x = V.b, V.i, V.s, V.e, V.r, V.x
        self.is_none, self.is_B, self.is_I = V.is_none, V.is_B, V.is_I
        self.is_S, self.is_E, self.is_R, self.is_X = V.is_S, V.is_E, V.is_R, V.is_X
        self.Int = z3.IntSort()
        self.Bool = z3.BoolSort()
        self.FieldSort = z3.ArraySort(self.Int, self.Val)
        self.LenSort = z3.ArraySort(self.Int, self.Int)
        self.ElemsSort = z3.ArraySort(self.Int, self.Val)
        self.AtSort = z3.ArraySort(self.Int, self.ElemsSort)
        self.HasInner = z3.ArraySort(self.Val, self.Bool)
        self.HasSort = z3.ArraySort(self.Int, self.HasInner)
        self.ValInner = z3.ArraySort(self.Val, self.Val)
        self.DValSort = z3.ArraySort(self.Int, self.ValInner)
        self.typeof = z3.Function("typeof", self.Int, self.Int)
        self.str_len = z3.Function("str_len", self.Str, self.Int)
        self._lits = {}        # python str -> z3 const
        self._fresh = 0
        self._ufs = {}
        self.class_ids = {}    # class name -> int
        self.enum_ids = {}     # (enum class, member) -> int
        self.enum_names = {}   # int -> (enum class, member)
        self.enum_classes = {} # enum class -> [ids]

    # -- fresh symbols ------------------------------------------------
    def fresh(self, prefix, sort):
        self._fresh += 1
        return z3.Const("%s!%d" % (prefix, self._fresh), sort)

    def fresh_val(self, prefix="v"):
        return self.fresh(prefix, self.Val)

    def fresh_int(self, prefix="n"):
        return self.fresh(prefix, self.Int)

    def fresh_bool(self, prefix="b"):
        return self.fresh(prefix, self.Bool)

    def uf(self, name, *sorts):
        key = name
        if key not in self._ufs:
            self._ufs[key] = z3.Function(name, *sorts)
        return self._ufs[key]

    # -- strings ---------------------------------------------------------
    def lit(self, text):
        if text not in self._lits:
            self._lits[text] = z3.Const("str_%d" % len(self._lits), self.Str)
        return self._lits[text]

    def literal_axioms(self):
        ax = []
        consts = list(self._lits.items())
        if len(consts) > 1:
            ax.append(z3.Distinct(*[c for _, c in consts]))
        for text, c in consts:
            ax.append(self.str_len(c) == len(text))
        return ax

    # -- classes / enums -----------------------------------------------
    def class_id(self, name):
        if name not in self.class_ids:
            self.class_ids[name] = len(self.class_ids) + 1
        return self.class_ids[name]

    def register_enum(self, cname, members):
        base = (len(self.enum_classes) + 1) * 1000
        ids = []
        for k, (mname, _value) in enumerate(members):
            ident = base + k
            self.enum_ids[(cname, mname)] = ident
            self.enum_names[ident] = (cname, mname)
            ids.append(ident)
        self.enum_classes[cname] = ids

    def enum_val(self, cname, mname):
        return self.E(z3.IntVal(self.enum_ids[(cname, mname)]))

    def is_enum_of(self, v, cname):
        ids = self.enum_classes[cname]
        lo, hi = ids[0], ids[-1]
        return z3.And(self.is_E(v), self.e(v) >= lo, self.e(v) <= hi)


def peel(u, v, ctor, acc):
    """acc(ctor(x)) --> x   (syntactic shortcut; z3 would do it anyway)."""
    try:
        if z3.is_app(v) and v.decl().eq(ctor):
            return v.arg(0)
    except Exception:
        pass
    return acc(v)
