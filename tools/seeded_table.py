#!/usr/bin/env python3
"""Markdown table of seeded/RESULTS.json for DESIGN.md section 0.8.

    python3 tools/seeded_table.py [seeded/RESULTS.json]
"""
import json
import os
import sys

VERIF = os.path.dirname(os.path.dirname(os.path.abspath(__file__)))


def short(oid):
    oid = oid.replace("behave.", "")
    if "#" in oid:
        fn, ob = oid.split("#", 1)
        fn = fn.split(":", 1)[-1]
        return "%s # %s" % (fn, ob[:70])
    return oid[:90]


def main():
    path = sys.argv[1] if len(sys.argv) > 1 else os.path.join(VERIF, "seeded", "RESULTS.json")
    res = json.load(open(path))
    rows = []
    n_ob = n_b = n_und = n_miss = 0
    for sid in sorted(res, key=lambda s: (s.split("-")[0], int(s.split("-")[1]))):
        r = res[sid]
        by = r.get("detected_by") or []
        fo = [o for o in r.get("failed_obligations", []) if not o.startswith(("bounded:", "rtcheck:"))]
        fb = [o for o in r.get("failed_obligations", []) if o.startswith(("bounded:", "rtcheck:"))]
        if r.get("detected"):
            if "obligation" in by:
                n_ob += 1
                verdict = "obligation" + (" + bounded" if "bounded" in by else "")
            else:
                n_b += 1
                verdict = "bounded only"
        elif r.get("check_exit") == 2:
            n_und += 1
            verdict = "undecided (exit 2)"
        else:
            n_miss += 1
            verdict = "MISSED (exit %s)" % r.get("check_exit")
        first = short(fo[0]) if fo else (fb[0] if fb else (r.get("undecided") or [""])[0][:90])
        rows.append("| %s | %s | %s | %s |" % (sid, (r.get("function") or "")[:46], verdict, first.replace("|", "/")))
    print("| change | function changed | caught by | first failing obligation / check |")
    print("|---|---|---|---|")
    print("\n".join(rows))
    print()
    print("%d changes: %d caught by a failing proof obligation, %d by a bounded stand-in only, %d undecided, %d missed"
          % (len(res), n_ob, n_b, n_und, n_miss))


if __name__ == "__main__":
    main()
