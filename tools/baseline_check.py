#!/usr/bin/env python3
"""Run the pinned test suite of /repo (command from /root/.vp/BASELINE.json) and
compare with its stable_pass list.  Exit 0 iff every stable_pass test passes."""
import json, os, subprocess, sys, tempfile
import xml.etree.ElementTree as ET

base = json.load(open("/root/.vp/BASELINE.json"))
fd, path = tempfile.mkstemp(suffix=".xml", dir="/var/tmp")
os.close(fd)
cmd = base["cmd"].replace("<file>", path)
env = dict(os.environ)
env.pop("BEHAVE_VERIF", None)
p = subprocess.run(cmd, shell=True, capture_output=True, text=True, env=env)
passed = set()
for tc in ET.parse(path).getroot().iter("testcase"):
    if not any(ch.tag in ("failure", "error", "skipped") for ch in tc):
        passed.add("%s::%s" % (tc.get("classname"), tc.get("name")))
os.unlink(path)
want = set(base["stable_pass"])
missing = sorted(want - passed)
print("stable_pass: %d, passed now: %d, missing: %d" % (len(want), len(passed & want), len(missing)))
for m in missing[:20]:
    print("  MISSING", m)
sys.exit(1 if missing else 0)
