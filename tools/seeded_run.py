#!/usr/bin/env python3
"""Run the registered checks against the seeded property-breaking changes in /verif/seeded/<id>/.

For each seeded change: confirm the demonstration (demo.py exits 0 on the clean tree, 1 with the patch),
apply the patch to /repo (git apply), run the quick check of its property (and of the other properties
given with --also), undo it straight afterwards (git checkout -- .).  Results: seeded/RESULTS.json and a
table on stdout.  Nothing is ever committed to /repo.

    python3 tools/seeded_run.py [--only C01-1,C03-2] [--tier quick] [--no-demo] [--proof-only]
"""
import argparse
import json
import os
import re
import subprocess
import sys
import time

VERIF = os.path.dirname(os.path.dirname(os.path.abspath(__file__)))
REPO = "/repo"
SEEDED = os.path.join(VERIF, "seeded")


def sh(cmd, cwd=None, env=None, timeout=1800):
    p = subprocess.run(cmd, shell=True, cwd=cwd, env=env, capture_output=True, text=True, timeout=timeout)
    return p.returncode, p.stdout + p.stderr


def clean_repo():
    sh("git checkout -- . && git clean -fdq -- behave", cwd=REPO)


def main():
    ap = argparse.ArgumentParser()
    ap.add_argument("--only", default="")
    ap.add_argument("--tier", default="quick")
    ap.add_argument("--no-demo", action="store_true")
    ap.add_argument("--proof-only", action="store_true", help="skip the bounded stand-ins (PYVC_NO_BOUNDED=1)")
    ap.add_argument("--fast", action="store_true", help="PYVC_FAST_UNKNOWN=1: an unknown of the first solver attempt is reported without the retry ladder")
    args = ap.parse_args()
    rc, out = sh("git status --short -- behave", cwd=REPO)
    if out.strip():
        print("refusing: /repo has uncommitted changes under behave/:\n" + out)
        return 2
    ids = sorted(d for d in os.listdir(SEEDED) if os.path.isdir(os.path.join(SEEDED, d)))
    if args.only:
        want = set(args.only.split(","))
        ids = [i for i in ids if i in want or i.split("-")[0] in want]
    res_path = os.path.join(SEEDED, "RESULTS.json")
    results = json.load(open(res_path)) if os.path.exists(res_path) else {}
    for sid in ids:
        d = os.path.join(SEEDED, sid)
        prop = sid.split("-")[0]
        rec = {"property": prop}
        try:
            meta = json.load(open(os.path.join(d, "meta.json")))
            rec["summary"] = meta.get("summary", "")
            rec["function"] = meta.get("function", "")
        except Exception:
            pass
        demo = os.path.join(d, "demo.py")
        if not args.no_demo:
            rc0, _ = sh("/venv/bin/python %s" % demo, cwd=REPO, timeout=600)
            rec["demo_clean_exit"] = rc0
        rc, out = sh("git apply %s" % os.path.join(d, "patch.diff"), cwd=REPO)
        if rc != 0:
            rec["error"] = "patch does not apply: " + out[-300:]
            results[sid] = rec
            clean_repo()
            print("%-7s PATCH-FAILED" % sid)
            continue
        try:
            if not args.no_demo:
                rc1, _ = sh("/venv/bin/python %s" % demo, cwd=REPO, timeout=600)
                rec["demo_patched_exit"] = rc1
            env = dict(os.environ)
            env["VERIF_TIER"] = args.tier
            if args.proof_only:
                env["PYVC_NO_BOUNDED"] = "1"
            if args.fast:
                env["PYVC_FAST_UNKNOWN"] = "1"
            t0 = time.time()
            rc, out = sh("./check %s --tier %s" % (prop, args.tier), cwd=VERIF, env=env)
            rec["check_exit"] = rc
            rec["wall_s"] = round(time.time() - t0, 1)
            rec["violations"] = sorted(set(re.findall(r"^VIOLATION .*$", out, re.M)))[:12]
            rec["failed_obligations"] = sorted(set(re.findall(r"^failed obligation: (.*)$", out, re.M)))[:12]
            rec["failed_bounded"] = sorted(set(re.findall(r"^failed bounded check: (.*)$", out, re.M)))[:12]
            rec["undecided"] = sorted(set(re.findall(r"^UNDECIDED: (.*)$", out, re.M)))[:6]
            rec["tail"] = out.strip().splitlines()[-1][:200] if out.strip() else ""
            rec["proof_only"] = bool(args.proof_only)
            rec["fast_unknown"] = bool(args.fast)
        finally:
            clean_repo()
        rec["detected"] = rec.get("check_exit") == 1 and bool(rec.get("violations"))
        by = []
        if any(not o.startswith(("bounded:", "rtcheck:")) for o in rec.get("failed_obligations", [])):
            by.append("obligation")
        if any(o.startswith(("bounded:", "rtcheck:")) for o in rec.get("failed_obligations", [])):
            by.append("bounded")
        rec["detected_by"] = by
        results[sid] = rec
        print("%-7s demo %s/%s check exit=%s %5.1fs detected=%s by=%s  %s" % (
            sid, rec.get("demo_clean_exit"), rec.get("demo_patched_exit"), rec.get("check_exit"), rec.get("wall_s", 0),
            rec["detected"], ",".join(by), (rec.get("failed_obligations") or rec.get("failed_bounded") or [""])[0][:90]))
        sys.stdout.flush()
        json.dump(results, open(res_path, "w"), indent=1, sort_keys=True)
    rc, out = sh("git status --short", cwd=REPO)
    if out.strip():
        print("WARNING: /repo not clean after run:\n" + out)
    n = sum(1 for r in results.values() if r.get("detected"))
    print("detected %d of %d seeded changes" % (n, len(results)))
    return 0


if __name__ == "__main__":
    sys.exit(main())
