#!/bin/sh
# usage: tools/mutant_try.sh <prop> <python-edit-script>   (edits a scratch copy of /repo/behave, runs the check, removes it)
PROP="$1"; EDIT="$2"
D=/var/tmp/mut_$$
rm -rf "$D"; mkdir -p "$D"; cp -r /repo/behave "$D/"
( cd "$D" && python3 -c "$EDIT" ) || { echo "edit failed"; rm -rf "$D"; exit 9; }
cd /verif && VERIF_REPO="$D" PYVC_NO_BOUNDED=${PYVC_NO_BOUNDED:-1} ./check "$PROP" 2>&1 | grep -v "KNOWN-FINDING" | tail -${TAILN:-6} | cut -c1-220
rm -rf "$D"
