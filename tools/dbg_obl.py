"""python3-vt tools/dbg_obl.py <fid> <substring of oid>  -- print goal and hypotheses of one obligation"""
import sys
sys.setrecursionlimit(20000)
sys.path.insert(0, ".")
from pyvc import source, contracts as C
from pyvc.verify import PyVC
import contracts as sidecar
sidecar.load_all()
vc = PyVC(source.sources())
fid, sub = sys.argv[1], sys.argv[2]
info = vc.verify_function(fid)
for ob in info["obligations"]:
    if sub in ob.oid:
        print("==", ob.oid)
        print("GOAL:", ob.goal)
        if len(sys.argv) > 3:
            for h in ob.pc:
                t = str(h)
                print("  H:", t[:int(sys.argv[3])])
