#!/usr/bin/env python3
"""Regenerate /verif/MANIFEST.json from contracts.PROPERTIES (run with python3-vt)."""
import json, os, sys
HERE = os.path.dirname(os.path.dirname(os.path.abspath(__file__)))
sys.path.insert(0, HERE)
import contracts as sidecar
sidecar.load_all()
props = [json.loads(l) for l in open(os.path.join(HERE, "properties.jsonl"))]
TECH = ("contract-based deductive verification: VCs generated from the real function ASTs against sidecar "
        "contracts, discharged by z3/cvc5; bounded run-time-contract stand-ins where stated")
checks = []
na = []
for p in props:
    pid = p["id"]
    cfg = sidecar.PROPERTIES.get(pid)
    if not cfg:
        na.append({"property_id": pid, "reason": "check not built yet (work in progress; see DESIGN.md section 5)"})
        continue
    num = int(pid[1:])
    checks.append({
        "property_id": pid,
        "quick_cmd": "./check %s --tier quick" % pid,
        "thorough_cmd": "./check %s --tier thorough" % pid,
        "evidence_file": "evidence/%s.json" % pid,
        "replay_cmd_template": "./check %s --replay {path}" % pid,
        "engine": "pyvc",
        "level_claimed": {"category": cfg.get("level", "proof"),
                          "text": cfg.get("text") or cfg.get("explanation", ""),
                          "design_ref": "DESIGN.md 5.%d" % num},
        "level_note": cfg.get("note") or ("trusted: pyvc engine (own VC generator), z3/cvc5, field shapes, the assumed "
                                          "contracts listed in the evidence file (trusted_base); " + "; ".join(cfg.get("notes", []))),
        "technique": cfg.get("technique", TECH),
    })
m = {
    "version": 1,
    "setup_cmd": "python3-vt -c \"import z3, sys; sys.path.insert(0, '.'); import pyvc.check\" && /venv/bin/python -c \"import behave\" && mkdir -p evidence replays",
    "hooks": {"guard": "BEHAVE_VERIF",
              "enable": "none needed: contracts are sidecar, functions are extracted from the working tree on every run",
              "baseline_off_cmd": "python3 tools/baseline_check.py",
              "source_commits": [], "add_only": True},
    "engines": [
        {"name": "pyvc", "path": "pyvc/", "serves_properties": [c["property_id"] for c in checks],
         "kind_free_text": "own verification-condition generator over the real function ASTs of /repo (re-read on every run) "
                           "against sidecar contracts in contracts/; z3 (rlimit, E-matching then MBQI) with cvc5 as second back end"},
        {"name": "rtcheck+bounded", "path": "harness/", "serves_properties": [c["property_id"] for c in checks],
         "kind_free_text": "bounded stand-ins and replay under /venv/bin/python: the same contract text evaluated at run time on "
                           "the real functions (rtcheck), and stated-bound run-time contracts on real runs (bounded)"}],
    "checks": checks,
    "notes": "see DESIGN.md; known findings in known_findings.json; fix: commits in /repo are listed there as fixed",
    "not_applicable": na,
}
json.dump(m, open(os.path.join(HERE, "MANIFEST.json"), "w"), indent=1)
print("checks:", [c["property_id"] for c in checks], "not_applicable:", len(na))
